import Skv.Lemmas.Pipeline
/-!
Flow control (C17): the permit of a committer lives with its batch until the batch has left the
queue and the call has returned, hence the ring never holds more batches than there are permits.
`owners` is ghost state of the model; `PermInv` ties it to `permits`, the queue and the threads.
-/
open PState

structure PermInv (P : Nat) (s : PState) : Prop where
  bound : s.permits + s.owners.length ≤ P
  qown : ∀ qb ∈ s.queue, Own.bat qb.first ∈ s.owners
  hp : ∀ (i : Nat) (t : Thread), s.threads[i]? = some t → ∀ st, t.pc = .havePermit st → Own.thr i ∈ s.owners
  dq : ∀ f ∈ s.dropped, ∀ qb ∈ s.queue, qb.first ≠ f
  dlt : ∀ f ∈ s.dropped, f < s.logSeq

/-- a duplicate-free list contained in another list is no longer than it -/
theorem nodup_subset_length {α : Type} [DecidableEq α] : ∀ (l m : List α), l.Nodup → (∀ x ∈ l, x ∈ m) →
    l.length ≤ m.length := by
  intro l
  induction l with
  | nil => intro m _ _; exact Nat.zero_le _
  | cons x l ih =>
    intro m hnd hsub
    have hx : x ∈ m := hsub x (List.mem_cons_self ..)
    have hnd' := List.nodup_cons.mp hnd
    have hsub' : ∀ y ∈ l, y ∈ m.erase x := by
      intro y hy
      have hne : y ≠ x := fun h => hnd'.1 (h ▸ hy)
      exact (List.mem_erase_of_ne hne).mpr (hsub y (List.mem_cons_of_mem _ hy))
    have := ih (m.erase x) hnd'.2 hsub'
    rw [List.length_erase_of_mem hx] at this
    have hpos : 0 < m.length := List.length_pos_of_mem hx
    simp only [List.length_cons]; omega

theorem nodup_map_bat : ∀ (l : List Nat), l.Nodup → (l.map Own.bat).Nodup := by
  intro l; induction l with
  | nil => intro _; simp
  | cons x l ih =>
    intro h
    have h' := List.nodup_cons.mp h
    simp only [List.map_cons, List.nodup_cons]
    refine ⟨?_, ih h'.2⟩
    intro hm
    obtain ⟨y, hy, he⟩ := List.mem_map.mp hm
    injection he with he
    exact h'.1 (he ▸ hy)

theorem qchain_firsts_nodup : ∀ (q : List QB) (a z : Nat), QChain a q z → (q.map (·.first)).Nodup := by
  intro q; induction q with
  | nil => intro a z _; simp
  | cons b r ih =>
    intro a z h
    obtain ⟨h1, h2, h3⟩ := h
    simp only [List.map_cons, List.nodup_cons]
    refine ⟨?_, ih _ _ h3⟩
    intro hm
    obtain ⟨qb, hqb, he⟩ := List.mem_map.mp hm
    have := qchain_first_ge _ _ _ h3 qb hqb
    omega

theorem perm_release (P : Nat) (s : PState) (h : PermInv P s) (o : Own)
    (hq : ∀ f, o = .bat f → ∀ qb ∈ s.queue, qb.first ≠ f)
    (hh : ∀ j, o = .thr j → ∀ t, s.threads[j]? = some t → ∀ st, t.pc ≠ .havePermit st) :
    PermInv P (s.release o) := by
  unfold release
  split
  · rename_i hc
    have hmem : o ∈ s.owners := by simpa using hc
    refine ⟨?_, ?_, ?_, h.dq, h.dlt⟩
    · show s.permits + 1 + (s.owners.erase o).length ≤ P
      rw [List.length_erase_of_mem hmem]
      have := h.bound
      have hpos : 0 < s.owners.length := List.length_pos_of_mem hmem
      omega
    · intro qb hqb
      show Own.bat qb.first ∈ s.owners.erase o
      have hne : Own.bat qb.first ≠ o := by
        intro he; exact hq qb.first he.symm qb hqb rfl
      exact (List.mem_erase_of_ne hne).mpr (h.qown qb hqb)
    · intro i t ht st hst
      show Own.thr i ∈ s.owners.erase o
      have hne : Own.thr i ≠ o := by
        intro he; exact hh i he.symm t ht st hst
      exact (List.mem_erase_of_ne hne).mpr (h.hp i t ht st hst)
  · exact h

/-- replacing thread `i` by a thread that is not at `have_permit` -/
theorem perm_setThread (P : Nat) (s : PState) (h : PermInv P s) (i : Nat) (t' : Thread)
    (hnew : ∀ st, t'.pc ≠ .havePermit st) : PermInv P (s.setThread i t') := by
  refine ⟨h.bound, h.qown, ?_, h.dq, h.dlt⟩
  intro j t hj st hst
  simp only [setThread_threads] at hj
  by_cases hij : i = j
  · subst hij
    rw [List.getElem?_set_self'] at hj
    cases hs : s.threads[i]? with
    | none => simp [hs] at hj
    | some t0 => simp [hs] at hj; subst hj; exact absurd hst (hnew st)
  · rw [List.getElem?_set_ne hij] at hj
    exact h.hp j t hj st hst

/-- a state that differs only in fields `PermInv` does not read -/
theorem perm_same (P : Nat) (s s' : PState) (h : PermInv P s) (h1 : s'.permits = s.permits)
    (h2 : s'.owners = s.owners) (h3 : s'.queue = s.queue) (h4 : s'.threads = s.threads)
    (h5 : s'.dropped = s.dropped) (h6 : s.logSeq ≤ s'.logSeq) : PermInv P s' := by
  refine ⟨by rw [h1, h2]; exact h.bound, by rw [h2, h3]; exact h.qown, by rw [h2, h4]; exact h.hp,
          by rw [h3, h5]; exact h.dq, ?_⟩
  intro f hf; rw [h5] at hf; exact Nat.lt_of_lt_of_le (h.dlt f hf) h6

theorem perm_finish (P : Nat) (s : PState) (h : PermInv P s) (i : Nat) (t : Thread) (r : CRes) (fo : Option Nat) :
    PermInv P (s.finish i t r fo) := by
  have h1 := perm_setThread P s h i { t with pc := .ready, results := r :: t.results } (fun st hst => by cases hst)
  unfold finish
  dsimp only
  cases fo with
  | none =>
    dsimp only
    apply perm_release P _ h1
    · intro f he; cases he
    · intro j he t' ht' st hst
      have hji : j = i := by injection he with h; exact h.symm
      subst hji
      simp only [setThread_threads] at ht'
      rw [List.getElem?_set_self'] at ht'
      cases hs : s.threads[j]? with
      | none => simp [hs] at ht'
      | some t0 => simp [hs] at ht'; subst ht'; cases hst
  | some f =>
    dsimp only
    split
    · rename_i hc
      apply perm_release P _ h1
      · intro f' he qb hqb
        have : f' = f := by injection he with h; exact h.symm
        subst this
        have hd : f' ∈ (s.setThread i { t with pc := .ready, results := r :: t.results }).dropped := by
          simpa using hc
        exact h.dq f' hd qb hqb
      · intro j he; cases he
    · exact perm_same P _ _ h1 rfl rfl rfl rfl rfl (Nat.le_refl _)

theorem perm_dropBatch (P : Nat) (s : PState) (h : PermInv P s) (f : Nat)
    (hq : ∀ qb ∈ s.queue, qb.first ≠ f) (hl : f < s.logSeq) : PermInv P (s.dropBatch f) := by
  unfold dropBatch
  split
  · apply perm_release P _ h
    · intro f' he qb hqb
      have : f' = f := by injection he with h; exact h.symm
      subst this; exact hq qb hqb
    · intro j he; cases he
  · refine ⟨h.bound, h.qown, h.hp, ?_, ?_⟩
    · intro f' hf' qb hqb
      rcases List.mem_cons.mp hf' with rfl | hf'
      · exact hq qb hqb
      · exact h.dq f' hf' qb hqb
    · intro f' hf'
      rcases List.mem_cons.mp hf' with rfl | hf'
      · exact hl
      · exact h.dlt f' hf'

theorem perm_complete (P : Nat) (s : PState) (h : PermInv P s) (f : Nat) (r : CRes) :
    PermInv P (s.complete f r) := by
  unfold complete; split
  · exact h
  · exact perm_same P _ _ h rfl rfl rfl rfl rfl (Nat.le_refl _)

theorem perm_markApplied (P : Nat) (s : PState) (h : PermInv P s) (f : Nat) : PermInv P (s.markApplied f) := by
  have hqm : ∀ qb', qb' ∈ (s.markApplied f).queue → ∃ qb ∈ s.queue, qb'.first = qb.first := by
    intro qb' hq
    simp only [markApplied_queue, List.mem_map] at hq
    obtain ⟨qb, hqb, rfl⟩ := hq
    exact ⟨qb, hqb, by split <;> rfl⟩
  refine ⟨h.bound, ?_, h.hp, ?_, h.dlt⟩
  · intro qb' hq; obtain ⟨qb, hqb, e⟩ := hqm qb' hq; rw [e]; exact h.qown qb hqb
  · intro f' hf' qb' hq; obtain ⟨qb, hqb, e⟩ := hqm qb' hq; rw [e]; exact h.dq f' hf' qb hqb

theorem perm_publishTop (P : Nat) (s : PState) (h : PermInv P s) (i : Nat) (t : Thread) (f : Nat) (k : FK) :
    PermInv P (s.publishTop i t f k) := by
  unfold publishTop
  dsimp only
  split
  · rename_i b rest hq
    split
    · have h1 := perm_setThread P s h i { t with pc := .pubDequeued b f k } (fun st hst => by cases hst)
      have hrest : ∀ qb, qb ∈ rest → qb ∈ s.queue := fun qb hqb => by rw [hq]; exact List.mem_cons_of_mem _ hqb
      exact ⟨h1.bound, fun qb hqb => h1.qown qb (hrest qb hqb), h1.hp,
             fun f' hf' qb hqb => h1.dq f' hf' qb (hrest qb hqb), h1.dlt⟩
    · split
      · exact perm_finish P s h i t _ _
      · exact perm_setThread P s h i _ (fun st hst => by cases hst)
  · split
    · exact perm_finish P s h i t _ _
    · exact perm_setThread P s h i _ (fun st hst => by cases hst)

theorem publishTop_panicked (s : PState) (i : Nat) (t : Thread) (f : Nat) (k : FK) :
    (s.publishTop i t f k).panicked = s.panicked := by
  unfold publishTop; dsimp only; split
  · split
    · rfl
    · split <;> simp
  · split <;> simp

/-- enqueue together with the owner's move past `have_permit`: its token becomes the batch's -/
theorem perm_enq (P : Nat) (s : PState) (h : PermInv P s) (i : Nat) (t' : Thread)
    (hthr : Own.thr i ∈ s.owners) (hnew : ∀ st, t'.pc ≠ .havePermit st) (c : Nat) (o : Oracle) :
    PermInv P (enq (s.setThread i t') c o (.bat s.logSeq :: s.owners.erase (.thr i))) := by
  refine ⟨?_, ?_, ?_, ?_, ?_⟩
  · show s.permits + (Own.bat s.logSeq :: s.owners.erase (Own.thr i)).length ≤ P
    simp only [List.length_cons, List.length_erase_of_mem hthr]
    have := h.bound
    have hpos : 0 < s.owners.length := List.length_pos_of_mem hthr
    omega
  · intro qb hqb
    show Own.bat qb.first ∈ Own.bat s.logSeq :: s.owners.erase (Own.thr i)
    have hqb : qb ∈ s.queue ++ [(⟨s.logSeq, c, false⟩ : QB)] := hqb
    rcases List.mem_append.mp hqb with hqb | hqb
    · exact List.mem_cons_of_mem _ ((List.mem_erase_of_ne (by intro he; cases he)).mpr (h.qown qb hqb))
    · simp at hqb; subst hqb; exact List.mem_cons_self ..
  · intro j t0 hj st hst
    show Own.thr j ∈ Own.bat s.logSeq :: s.owners.erase (Own.thr i)
    have hj : (s.threads.set i t')[j]? = some t0 := hj
    by_cases hij : i = j
    · subst hij
      rw [List.getElem?_set_self'] at hj
      cases hs : s.threads[i]? with
      | none => simp [hs] at hj
      | some t1 => simp [hs] at hj; subst hj; exact absurd hst (hnew st)
    · rw [List.getElem?_set_ne hij] at hj
      exact List.mem_cons_of_mem _
        ((List.mem_erase_of_ne (by intro he; injection he with he; exact hij he.symm)).mpr (h.hp j t0 hj st hst))
  · intro f hf qb hqb
    have hqb : qb ∈ s.queue ++ [(⟨s.logSeq, c, false⟩ : QB)] := hqb
    rcases List.mem_append.mp hqb with hqb | hqb
    · exact h.dq f hf qb hqb
    · simp at hqb; subst hqb; have := h.dlt f hf; show s.logSeq ≠ f; omega
  · intro f hf; have := h.dlt f hf; show f < s.logSeq + c; omega

/-- the queue is shorter than the number of permit owners while a committer holds its own permit -/
theorem queue_lt_owners (P : Nat) (s : PState) (hi : PInv s) (h : PermInv P s) (i : Nat)
    (hthr : Own.thr i ∈ s.owners) : s.queue.length + 1 ≤ s.owners.length := by
  obtain ⟨a, _, hch⟩ := hi.chain
  have hnd := qchain_firsts_nodup _ _ _ hch
  have hnd2 : (s.queue.map (fun qb => Own.bat qb.first)).Nodup := by
    have : s.queue.map (fun qb => Own.bat qb.first) = (s.queue.map (·.first)).map Own.bat := by
      simp [List.map_map, Function.comp_def]
    rw [this]
    exact nodup_map_bat _ hnd
  have hsub : ∀ x ∈ s.queue.map (fun qb => Own.bat qb.first), x ∈ s.owners.erase (Own.thr i) := by
    intro x hx
    obtain ⟨qb, hqb, rfl⟩ := List.mem_map.mp hx
    exact (List.mem_erase_of_ne (by intro he; cases he)).mpr (h.qown qb hqb)
  have := nodup_subset_length _ _ hnd2 hsub
  rw [List.length_map, List.length_erase_of_mem hthr] at this
  have hpos : 0 < s.owners.length := List.length_pos_of_mem hthr
  omega

/-- every step preserves the permit invariant and never reaches the overflow panic -/
theorem perm_step (P : Nat) (s : PState) (hi : PInv s) (h : PermInv P s) (hcap : P ≤ s.cap) (i : Nat) :
    PermInv P (s.stepThread i) ∧ (s.panicked = false → (s.stepThread i).panicked = false) := by
  by_cases hp : s.panicked = true
  · rw [stepThread_panicked s i hp]; exact ⟨h, fun h0 => by rw [hp] at h0; cases h0⟩
  · have hp : s.panicked = false := by simpa using hp
    cases ht : s.threads[i]? with
    | none => rw [stepThread_none s i ht]; exact ⟨h, fun h0 => h0⟩
    | some t =>
      have hpcok := hi.pcs i t ht
      rw [stepThread_eq s i t hp ht]
      cases hpc : t.pc with
      | ready => exact ⟨h, fun h0 => h0⟩
      | begun start =>
        dsimp only
        split
        · exact ⟨perm_setThread P s h i _ (fun st hst => by cases hst), fun h0 => h0⟩
        · split
          · rename_i hperm
            refine ⟨⟨?_, ?_, ?_, h.dq, h.dlt⟩, fun h0 => h0⟩
            · show s.permits - 1 + (Own.thr i :: s.owners).length ≤ P
              have := h.bound; simp only [List.length_cons]; omega
            · intro qb hqb; exact List.mem_cons_of_mem _ (h.qown qb hqb)
            · intro j t' hj st hst
              show Own.thr j ∈ Own.thr i :: s.owners
              simp only [setThread_threads] at hj
              by_cases hij : i = j
              · subst hij; exact List.mem_cons_self ..
              · rw [List.getElem?_set_ne hij] at hj
                exact List.mem_cons_of_mem _ (h.hp j t' hj st hst)
          · exact ⟨h, fun h0 => h0⟩
      | havePermit start =>
        have hthr : Own.thr i ∈ s.owners := h.hp i t ht start hpc
        dsimp only
        split
        · exact ⟨perm_finish P s h i t _ _, fun h0 => by simpa using h0⟩
        · exact ⟨perm_finish P s h i t _ _, fun h0 => by simpa using h0⟩
        · split
          · -- overflow branch is unreachable
            rename_i hov
            have hq := queue_lt_owners P s hi h i hthr
            have := h.bound
            exact absurd hov (by show ¬ s.queue.length ≥ s.cap; omega)
          · -- enqueue: the thread's permit token becomes the batch's
            split
            · -- WAL failure
              have hfin : PermInv P (enq (s.setThread i { t with pc := .walFailed s.logSeq }) t.req.keys.length
                  ((s.oracle.publish s.gc t.req.keys s.logSeq t.req.keys.length 0).rollback t.req.keys
                    (s.logSeq + t.req.keys.length - 1))
                  (.bat s.logSeq :: s.owners.erase (.thr i))) :=
                perm_enq P s h i _ hthr (fun st hst => by cases hst) _ _
              have h2 := perm_complete P _ hfin s.logSeq .errWal
              have h3 := perm_markApplied P _ h2 s.logSeq
              refine ⟨perm_same P _ _ h3 (by simp [enq]) (by simp [enq]) (by simp [enq]) (by simp [enq])
                (by simp [enq]) (by simp [enq]), fun _ => ?_⟩
              simp [hp]
            · exact ⟨perm_enq P s h i _ hthr (fun st hst => by cases hst) _ _, fun _ => hp⟩
      | applying f c j =>
        dsimp only
        split
        · exact ⟨perm_same P _ _ (perm_setThread P s h i { t with pc := .afterApply f c true } (fun st hst => by cases hst))
            rfl rfl rfl rfl rfl (Nat.le_refl _), fun _ => hp⟩
        · split
          · exact ⟨perm_same P _ _ (perm_setThread P s h i { t with pc := .applying f c (j + 1) } (fun st hst => by cases hst))
              rfl rfl rfl rfl rfl (Nat.le_refl _), fun _ => hp⟩
          · exact ⟨perm_same P _ _ (perm_setThread P s h i { t with pc := .afterApply f c false } (fun st hst => by cases hst))
              rfl rfl rfl rfl rfl (Nat.le_refl _), fun _ => hp⟩
      | afterApply f c failed =>
        have hx : ∀ (s0 : PState) (k : FK), PermInv P s0 →
            PermInv P ((s0.markApplied f).setThread i { t with pc := .afterMark f k }) :=
          fun s0 k h0 => perm_setThread P _ (perm_markApplied P s0 h0 f) i _ (fun st hst => by cases hst)
        cases failed with
        | true =>
          simp only [if_true]
          have h0 : PermInv P { s with oracle := s.oracle.rollback t.req.keys (f + c - 1) } :=
            perm_same P s _ h rfl rfl rfl rfl rfl (Nat.le_refl _)
          refine ⟨hx _ _ (perm_complete P _ h0 f .errApply), fun _ => ?_⟩
          simp [hp]
        | false =>
          simp only [Bool.false_eq_true, if_false]
          exact ⟨hx s _ h, fun _ => hp⟩
      | afterMark f k => exact ⟨perm_publishTop P s h i t f k, fun _ => by rw [publishTop_panicked]; exact hp⟩
      | walFailed f => exact ⟨perm_publishTop P s h i t f .wal, fun _ => by rw [publishTop_panicked]; exact hp⟩
      | pubDequeued b f k =>
        exact ⟨perm_same P _ _ (perm_setThread P s h i { t with pc := .pubVisible b f k } (fun st hst => by cases hst))
          rfl rfl rfl rfl rfl (Nat.le_refl _), fun _ => hp⟩
      | pubVisible b f k =>
        rw [hpc] at hpcok
        obtain ⟨⟨fl, hin⟩, hle⟩ := hpcok
        dsimp only
        have hbok := hi.bok _ _ _ hin
        have hq : ∀ qb ∈ s.queue, qb.first ≠ b.first := by
          intro qb hqb
          obtain ⟨a, hva, hch⟩ := hi.chain
          have := qchain_first_ge _ _ _ hch qb hqb
          have hl : b.last = b.first + b.count - 1 := rfl
          omega
        have h1 := perm_complete P s h b.first .ok
        have h2 := perm_dropBatch P _ h1 b.first (by simpa using hq) (by simp; omega)
        refine ⟨perm_publishTop P _ h2 i t f k, fun _ => ?_⟩
        rw [publishTop_panicked]; simp [hp]
      | afterPublish f k =>
        dsimp only
        split
        · exact ⟨perm_finish P s h i t _ _, fun _ => by simp [hp]⟩
        · split
          · exact ⟨perm_finish P s h i t _ _, fun _ => by simp [hp]⟩
          · exact ⟨perm_setThread P s h i _ (fun st hst => by cases hst), fun _ => hp⟩
      | waiting f =>
        dsimp only
        split
        · exact ⟨perm_finish P s h i t _ _, fun _ => by simp [hp]⟩
        · exact ⟨h, fun h0 => h0⟩

theorem publishTop_cap (s : PState) (i : Nat) (t : Thread) (f : Nat) (k : FK) :
    (s.publishTop i t f k).cap = s.cap := by
  unfold publishTop; dsimp only; split
  · split
    · rfl
    · split <;> simp
  · split <;> simp

theorem stepThread_cap (s : PState) (i : Nat) : (s.stepThread i).cap = s.cap := by
  by_cases hp : s.panicked = true
  · rw [stepThread_panicked s i hp]
  · have hp : s.panicked = false := by simpa using hp
    cases ht : s.threads[i]? with
    | none => rw [stepThread_none s i ht]
    | some t =>
      rw [stepThread_eq s i t hp ht]
      cases hpc : t.pc with
      | ready => rfl
      | begun start => dsimp only; split <;> (try split) <;> rfl
      | havePermit start =>
        dsimp only
        split
        · simp
        · simp
        · split
          · rfl
          · split <;> simp
      | applying f c j => dsimp only; split <;> (try split) <;> simp
      | afterApply f c failed => dsimp only; split <;> simp
      | afterMark f k => exact publishTop_cap s i t f k
      | walFailed f => exact publishTop_cap s i t f .wal
      | pubDequeued b f k => rfl
      | pubVisible b f k => dsimp only; rw [publishTop_cap]; simp
      | afterPublish f k => dsimp only; split <;> (try split) <;> simp
      | waiting f => dsimp only; split <;> simp
