import Skv.Drv.C08
import Skv.Drv.C12
import Skv.Drv.C04
import Skv.Drv.C05
import Skv.Drv.Compact
import Skv.Drv.Store
import Skv.Drv.C09
import Skv.Drv.C19
import Skv.Drv.C13
import Skv.Drv.C16
import Skv.Drv.Locks
import Skv.Drv.C18
import Skv.Drv.C10
import Skv.Drv.C14
import Skv.Drv.Stall
import Skv.Drv.BgWork
import Skv.Drv.Arena

def drivers : List (String × LineDriver) := [("c08", c08Driver), ("c12", c12Driver), ("c04", c04Driver), ("c05", c05Driver), ("ckey", ckeyDriver), ("ckey-judge", ckeyJudgeDriver), ("store", storeDriver), ("c09", c09Driver), ("c19", c19Driver), ("c13", c13Driver), ("c16", c16Driver), ("c16s", c16sDriver), ("locks", locksDriver), ("c18", c18Driver), ("c10", c10Driver), ("c14", c14Driver), ("stall", stallDriver), ("bgwork", bgworkDriver), ("arena", arenaDriver)]

def main (args : List String) : IO UInt32 := do
  match args with
  | [p] =>
    match drivers.lookup p with
    | some d => runDriver d (← IO.getStdin) (← IO.getStdout); return 0
    | none => IO.eprintln s!"unknown driver {p}"; return 2
  | _ => IO.eprintln "usage: skvdrv <property> < ops"; return 2
