import Skv.Model.Basic
import Skv.Model.Txn
import Skv.Spec.Overlay
import Skv.Lemmas.Txn
