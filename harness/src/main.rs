//! skv-harness: drives the real surrealkv code on generated inputs and writes the
//! line-protocol files consumed by the Lean driver (`skvdrv`) and the `check` script.
//!
//!   skv-harness <prop> gen  --seed S --cases N --tier quick|thorough --out ops.txt --stats stats.json
//!   skv-harness <prop> exec --ops ops.txt --out impl.txt
mod arena;
mod bgwork;
mod c04;
mod c05;
mod c08;
mod c09;
mod c10;
mod ckey;
mod crash;
mod c12;
mod c13;
mod c14;
mod c16;
mod c18;
mod c16s;
mod locks;
mod probe;
mod c19;
mod rng;
mod sched;
mod stall;
mod store;
mod util;

use std::collections::HashMap;

pub struct Args {
    pub seed: u64,
    pub cases: u64,
    pub thorough: bool,
    pub out: String,
    pub stats: String,
    pub ops: String,
    pub extra: HashMap<String, String>,
}

fn parse_args(v: &[String]) -> Args {
    let mut a = Args {
        seed: 1,
        cases: 100,
        thorough: false,
        out: "/dev/stdout".into(),
        stats: String::new(),
        ops: String::new(),
        extra: HashMap::new(),
    };
    let mut i = 0;
    while i < v.len() {
        let k = v[i].as_str();
        let val = v.get(i + 1).cloned().unwrap_or_default();
        match k {
            "--seed" => a.seed = val.parse().expect("seed"),
            "--cases" => a.cases = val.parse().expect("cases"),
            "--tier" => a.thorough = val == "thorough",
            "--out" => a.out = val,
            "--stats" => a.stats = val,
            "--ops" => a.ops = val,
            _ => {
                a.extra.insert(k.trim_start_matches("--").to_string(), val);
            }
        }
        i += 2;
    }
    a
}

fn main() {
    let argv: Vec<String> = std::env::args().collect();
    if argv.len() < 3 {
        eprintln!("usage: skv-harness <prop> gen|exec [options]");
        std::process::exit(2);
    }
    let prop = argv[1].as_str();
    let cmd = argv[2].as_str();
    let args = parse_args(&argv[3..]);
    let rc = match (prop, cmd) {
        ("c04", "gen") => c04::gen(&args),
        ("c04", "exec") => c04::exec(&args),
        ("c05", "gen") => c05::gen(&args),
        ("c05", "exec") => c05::exec(&args),
        ("c08", "gen") => c08::gen(&args),
        ("c10", "gen") => c10::gen(&args),
        ("c10", "exec") => c10::exec(&args),
        ("c09", "gen") => c09::gen(&args),
        ("c09", "exec") => c09::exec(&args),
        ("ckey", "gen") => ckey::gen(&args),
        ("store", "gen") => store::gen(&args),
        ("crash", "gen") => crash::gen(&args),
        ("crash", "exec") => crash::exec(&args),
        ("store", "exec") => store::exec(&args),
        ("ckey", "exec") => ckey::exec(&args),
        ("c08", "exec") => c08::exec(&args),
        ("c14", "gen") => c14::gen(&args),
        ("c14", "exec") => c14::exec(&args),
        ("c13", "gen") => c13::gen(&args),
        ("c13", "exec") => c13::exec(&args),
        ("c16", "gen") => c16::gen(&args),
        ("c16", "exec") => c16::exec(&args),
        ("c16s", "gen") => c16s::gen(&args),
        ("c16s", "exec") => c16s::exec(&args),
        ("probe", "node-sizes") => {
            println!("{:?}", surrealkv::verif::memtable::node_sizes());
            0
        }
        ("probe", "failed-open") => probe::failed_open(),
        ("probe", "repair-then-commit") => probe::repair_then_commit(),
        ("locks", "gen") => locks::gen(&args),
        ("locks", "exec") => locks::exec(&args),
        ("c18", "gen") => c18::gen(&args),
        ("c18", "exec") => c18::exec(&args),
        ("c19", "gen") => c19::gen(&args),
        ("c19", "exec") => c19::exec(&args),
        ("c19", "child") => c19::child(&args),
        ("arena", "gen") => arena::gen(&args),
        ("arena", "exec") => arena::exec(&args),
        ("bgwork", "gen") => bgwork::gen(&args),
        ("bgwork", "exec") => bgwork::exec(&args),
        ("stall", "gen") => stall::gen(&args),
        ("stall", "exec") => stall::exec(&args),
        ("c12", "gen") => c12::gen(&args),
        ("c12", "exec") => c12::exec(&args),
        _ => {
            eprintln!("unknown {prop} {cmd}");
            2
        }
    };
    std::process::exit(rc);
}
