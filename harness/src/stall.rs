//! C17 (write-stall wait): committers inside the real `WriteStallController::check` are advanced
//! from pause point to pause point (`stall.loop_top`, `stall.registered`, `stall.decided`) against an
//! environment that raises / clears the stall condition, signals, and shuts down.  The `check()`
//! future of each committer is polled by hand on its own thread, so "blocked in `notified.await`"
//! is observed exactly (the poll returned `Pending` and the waker has not been called), not by a
//! timeout.  Lines: see lean/Skv/Drv/Stall.lean.
use crate::rng::Rng;
use crate::sched::{Sched, WState, WORKER};
use crate::util::*;
use crate::Args;
use std::future::Future;
use std::io::Write;
use std::sync::atomic::{AtomicBool, Ordering};
use std::sync::{mpsc, Arc, Condvar, Mutex};
use std::task::{Context, Poll, Wake, Waker};
use std::time::Duration;
use surrealkv::verif::stall::Ctl;

const N: usize = 3;

#[derive(Clone, Copy, PartialEq)]
enum Ph {
    Idle,
    Registered(u64),
    Decided(u64),
    Returned,
}

pub fn gen(a: &Args) -> i32 {
    let mut out = std::io::BufWriter::new(std::fs::File::create(&a.out).expect("out"));
    let mut st = Stats::default();
    for case in 0..a.cases {
        let mut r = Rng::for_case(a.seed, case);
        writeln!(out, "case {case}").unwrap();
        // generation-side copy of the state, only to keep most operations applicable
        let (mut gen_, mut stalled, mut shutdown) = (0u64, false, false);
        let mut ph = [Ph::Idle; N];
        let nops = if a.thorough { r.range(8, 60) } else { r.range(8, 30) };
        for _ in 0..nops {
            let i = r.below(N as u64) as usize;
            let pick = r.below(100);
            let line = if pick < 50 {
                // the natural next step of committer i
                match ph[i] {
                    Ph::Idle | Ph::Returned => {
                        ph[i] = Ph::Registered(gen_);
                        format!("register {i}")
                    }
                    Ph::Registered(g) => {
                        ph[i] = if shutdown || !stalled { Ph::Returned } else { Ph::Decided(g) };
                        st.bump(if shutdown { "read_err" } else if !stalled { "read_ok" } else { "read_wait" });
                        format!("read {i}")
                    }
                    Ph::Decided(g) => {
                        if g < gen_ {
                            ph[i] = Ph::Idle;
                            st.bump("await_woken");
                        } else {
                            st.bump("await_blocked");
                        }
                        format!("await {i}")
                    }
                }
            } else if pick < 58 {
                // an operation that may not apply (answer `noop` on both sides)
                st.bump("maybe_inapplicable");
                format!("{} {i}", *r.pick(&["register", "read", "await"]))
            } else if pick < 72 {
                stalled = true;
                "stall".to_string()
            } else if pick < 84 {
                stalled = false;
                "clear".to_string()
            } else if pick < 99 || shutdown {
                gen_ += 1;
                "signal".to_string()
            } else {
                shutdown = true;
                gen_ += 1;
                st.bump("shutdown");
                "shutdown".to_string()
            };
            // keep the generation-side state right for the maybe-inapplicable operations
            let w: Vec<&str> = line.split(' ').collect();
            if pick >= 50 && pick < 58 {
                match (w[0], ph[i]) {
                    ("register", Ph::Idle) | ("register", Ph::Returned) => ph[i] = Ph::Registered(gen_),
                    ("read", Ph::Registered(g)) => ph[i] = if shutdown || !stalled { Ph::Returned } else { Ph::Decided(g) },
                    ("await", Ph::Decided(g)) if g < gen_ => ph[i] = Ph::Idle,
                    _ => {}
                }
            }
            st.bump(w[0]);
            writeln!(out, "{line}").unwrap();
        }
    }
    if !a.stats.is_empty() {
        std::fs::write(&a.stats, st.to_json()).unwrap();
    }
    0
}

struct WFlag {
    woken: AtomicBool,
    m: Mutex<bool>,
    cv: Condvar,
}
impl Wake for WFlag {
    fn wake(self: Arc<Self>) {
        self.woken.store(true, Ordering::SeqCst);
        *self.m.lock().unwrap() = true;
        self.cv.notify_all();
    }
}

enum Cmd {
    Start,
    Quit,
}

struct Case {
    ctl: Arc<Ctl>,
    sched: Arc<Sched>,
    flags: Vec<Arc<WFlag>>,
    tx: Vec<mpsc::Sender<Cmd>>,
    joins: Vec<std::thread::JoinHandle<()>>,
    pending: [bool; N], // a poll returned Pending and the committer has not been seen at a gate since
}

impl Case {
    fn new() -> Case {
        let ctl = Arc::new(Ctl::new());
        let sched = Sched::new(N);
        {
            let s = Arc::clone(&sched);
            surrealkv::verif::set_yield_handler(Some(Arc::new(move |name: &'static str| {
                if name.starts_with("stall.") {
                    s.gate(name);
                }
            })));
        }
        let mut flags = vec![];
        let mut tx = vec![];
        let mut joins = vec![];
        for i in 0..N {
            let flag = Arc::new(WFlag { woken: AtomicBool::new(false), m: Mutex::new(false), cv: Condvar::new() });
            flags.push(Arc::clone(&flag));
            let (t, rx) = mpsc::channel::<Cmd>();
            tx.push(t);
            let ctl = Arc::clone(&ctl);
            let sched = Arc::clone(&sched);
            joins.push(std::thread::spawn(move || {
                WORKER.with(|w| w.set(Some(i)));
                let waker = Waker::from(Arc::clone(&flag));
                while let Ok(Cmd::Start) = rx.recv() {
                    let mut fut = Box::pin(ctl.check());
                    let mut cx = Context::from_waker(&waker);
                    loop {
                        match fut.as_mut().poll(&mut cx) {
                            Poll::Ready(r) => {
                                drop(fut);
                                sched.finished(if r.is_ok() { "ok".into() } else { "err".into() });
                                break;
                            }
                            Poll::Pending => {
                                sched.mark("pending");
                                let mut g = flag.m.lock().unwrap();
                                while !*g {
                                    g = flag.cv.wait(g).unwrap();
                                }
                                *g = false;
                            }
                        }
                    }
                }
            }));
        }
        Case { ctl, sched, flags, tx, joins, pending: [false; N] }
    }

    fn at(&self, i: usize, gate: &str) -> bool {
        self.sched.state(i) == WState::AtGate(gate.to_string())
    }

    /// release committer `i` from its gate; where it is afterwards
    fn step(&mut self, i: usize) -> String {
        match self.sched.step(i, Duration::from_secs(20)) {
            None => "HANG".into(),
            Some(WState::AtGate(g)) => g,
            Some(WState::Idle) => {
                let mut sh = self.sched.m.lock().unwrap();
                format!("done:{}", sh.results[i].pop().unwrap_or_default())
            }
            Some(WState::Marked(_)) => {
                self.pending[i] = true;
                "pending".into()
            }
            Some(WState::Running) => "HANG".into(),
        }
    }

    fn op(&mut self, w: &[&str]) -> String {
        let idx = |s: &str| s.parse::<usize>().ok().filter(|i| *i < N);
        match w {
            ["register", i] => {
                let Some(i) = idx(i) else { return "bad-op".into() };
                if self.pending[i] {
                    return "noop".into();
                }
                if self.sched.state(i) == WState::Idle {
                    // a new call of check()
                    self.flags[i].woken.store(false, Ordering::SeqCst);
                    {
                        let mut sh = self.sched.m.lock().unwrap();
                        sh.states[i] = WState::Running;
                    }
                    self.tx[i].send(Cmd::Start).unwrap();
                    if !self.sched.wait_for(i, Duration::from_secs(20), |s| matches!(s, WState::AtGate(_))) {
                        return "HANG".into();
                    }
                }
                if self.at(i, "stall.loop_top") {
                    match self.step(i).as_str() {
                        "stall.registered" => "reg".into(),
                        other => format!("UNEXPECTED:{other}"),
                    }
                } else {
                    "noop".into()
                }
            }
            ["read", i] => {
                let Some(i) = idx(i) else { return "bad-op".into() };
                if self.pending[i] || !self.at(i, "stall.registered") {
                    return "noop".into();
                }
                match self.step(i).as_str() {
                    "stall.decided" => "wait".into(),
                    "done:ok" => "ok".into(),
                    "done:err" => "err".into(),
                    other => format!("UNEXPECTED:{other}"),
                }
            }
            ["await", i] => {
                let Some(i) = idx(i) else { return "bad-op".into() };
                if self.pending[i] {
                    // blocked earlier: has its waker been called since?
                    if !self.flags[i].woken.swap(false, Ordering::SeqCst) {
                        return "blocked".into();
                    }
                    self.pending[i] = false;
                    if !self.sched.wait_for(i, Duration::from_secs(20), |s| matches!(s, WState::AtGate(_) | WState::Idle)) {
                        return "HANG".into();
                    }
                    return if self.at(i, "stall.loop_top") { "woken".into() } else { format!("UNEXPECTED:{:?}", self.sched.state(i)).replace(' ', "_") };
                }
                if !self.at(i, "stall.decided") {
                    return "noop".into();
                }
                self.flags[i].woken.store(false, Ordering::SeqCst);
                match self.step(i).as_str() {
                    "stall.loop_top" => "woken".into(),
                    "pending" => "blocked".into(),
                    other => format!("UNEXPECTED:{other}"),
                }
            }
            ["stall"] => {
                self.ctl.set_stalled(true);
                "ok".into()
            }
            ["clear"] => {
                self.ctl.set_stalled(false);
                "ok".into()
            }
            ["signal"] => {
                self.ctl.signal_work_done();
                "ok".into()
            }
            ["shutdown"] => {
                self.ctl.signal_shutdown();
                "ok".into()
            }
            _ => "bad-op".into(),
        }
    }

    /// let every committer run to the end of its call, then stop the threads
    fn finish(mut self) {
        self.ctl.set_stalled(false);
        for _round in 0..200 {
            self.ctl.signal_shutdown();
            let mut all_idle = true;
            for i in 0..N {
                match self.sched.state(i) {
                    WState::Idle => {}
                    WState::AtGate(_) => {
                        all_idle = false;
                        let _ = self.sched.step(i, Duration::from_secs(5));
                    }
                    _ => {
                        all_idle = false;
                        let _ = self.sched.wait_for(i, Duration::from_millis(200), |s| matches!(s, WState::AtGate(_) | WState::Idle));
                    }
                }
            }
            if all_idle {
                break;
            }
        }
        surrealkv::verif::set_yield_handler(None);
        for t in &self.tx {
            let _ = t.send(Cmd::Quit);
        }
        for j in self.joins.drain(..) {
            let _ = j.join();
        }
    }
}

pub fn exec(a: &Args) -> i32 {
    let text = std::fs::read_to_string(&a.ops).expect("ops");
    let mut out = std::io::BufWriter::new(std::fs::File::create(&a.out).expect("out"));
    let mut cur: Option<Case> = None;
    for line in text.lines() {
        let w: Vec<&str> = line.split_whitespace().collect();
        let res = match w.first().copied() {
            Some("case") => {
                if let Some(c) = cur.take() {
                    c.finish();
                }
                cur = Some(Case::new());
                "-".to_string()
            }
            Some(_) => match cur.as_mut() {
                Some(c) => c.op(&w),
                None => "bad-op".into(),
            },
            None => "bad-op".into(),
        };
        writeln!(out, "{res}").unwrap();
    }
    if let Some(c) = cur.take() {
        c.finish();
    }
    out.flush().unwrap();
    0
}
