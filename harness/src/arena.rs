//! C15 (arena accounting): batches of sets against an empty memtable of a given capacity.  The
//! admission check `MemTable::can_hold`, the certain-fit size `MemTable::arena_size_for` and a real
//! insertion (tower heights drawn by the skiplist) are reported; the Lean model computes the first two
//! exactly and bounds the third (a refused batch never fits, a batch given its certain-fit size always
//! does).  Lines:
//!   case <n> <nodeMin> <nodeMax> <empty>     the node sizes the code reports
//!   probe <capacity> <klen>:<vlen> ...      => can=<0|1> size=<bytes> add=<ok|full>
//!   sized <klen>:<vlen> ...                 => add=<ok|full>   (capacity = arena_size_for)
use crate::rng::Rng;
use crate::util::*;
use crate::Args;
use std::io::Write;
use surrealkv::verif::memtable as vm;

pub fn gen(a: &Args) -> i32 {
    let mut out = std::io::BufWriter::new(std::fs::File::create(&a.out).expect("out"));
    let mut st = Stats::default();
    let (nmin, nmax, empty) = vm::node_sizes();
    for case in 0..a.cases {
        let mut r = Rng::for_case(a.seed, case);
        writeln!(out, "case {case} {nmin} {nmax} {empty}").unwrap();
        let n = r.range(1, if a.thorough { 40 } else { 12 }) as usize;
        let mut sizes = vec![];
        for _ in 0..n {
            let k = r.range(8, 40) as usize;
            let v = if r.chance(1, 5) { r.range(200, 3000) } else { r.range(0, 60) } as usize;
            sizes.push((k, v));
        }
        let spec: Vec<String> = sizes.iter().map(|(k, v)| format!("{k}:{v}")).collect();
        let data: usize = sizes.iter().map(|(k, v)| k + v + 7).sum();
        let lo = empty + n * nmin + data; // everything with the shortest towers
        let hi = empty + n * nmax + data; // everything with full towers
        // capacities around both limits and in between
        let cap = match r.below(6) {
            0 => lo.saturating_sub(r.range(1, 64) as usize),
            1 => lo + (nmax - nmin) + r.below(3) as usize - 1,
            2 => hi,
            3 => hi - 1,
            4 => r.range(lo as u64, hi as u64 + 1) as usize,
            _ => hi + r.range(1, 500) as usize,
        };
        writeln!(out, "probe {cap} {}", spec.join(" ")).unwrap();
        st.bump("probe");
        writeln!(out, "sized {}", spec.join(" ")).unwrap();
        st.bump("sized");
    }
    if !a.stats.is_empty() {
        std::fs::write(&a.stats, st.to_json()).unwrap();
    }
    0
}

fn parse(ws: &[&str]) -> Vec<(usize, usize)> {
    ws.iter()
        .filter_map(|w| w.split_once(':'))
        .map(|(k, v)| (k.parse().unwrap(), v.parse().unwrap()))
        .collect()
}

pub fn exec(a: &Args) -> i32 {
    let text = std::fs::read_to_string(&a.ops).expect("ops");
    let mut out = std::io::BufWriter::new(std::fs::File::create(&a.out).expect("out"));
    for line in text.lines() {
        let w: Vec<&str> = line.split_whitespace().collect();
        let res: String = match w.first().copied() {
            Some("case") => "-".into(),
            Some("probe") => {
                let cap: usize = w[1].parse().unwrap();
                match vm::arena_probe(cap, &parse(&w[2..])) {
                    Ok((can, size, added)) => format!("can={} size={size} add={}", can as u8, if added { "ok" } else { "full" }),
                    Err(e) => format!("err:{}", e.replace(' ', "_")),
                }
            }
            Some("sized") => {
                let sizes = parse(&w[1..]);
                match vm::arena_probe(1 << 22, &sizes).and_then(|(_, size, _)| vm::arena_probe(size, &sizes)) {
                    Ok((can, _, added)) => format!("can={} add={}", can as u8, if added { "ok" } else { "full" }),
                    Err(e) => format!("err:{}", e.replace(' ', "_")),
                }
            }
            _ => "bad-op".into(),
        };
        writeln!(out, "{res}").unwrap();
    }
    out.flush().unwrap();
    0
}
