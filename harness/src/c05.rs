//! C05 / C15 / C17 — the real `CommitPipeline` under controlled schedules.
//! Workers run `Pipeline::commit` on their own threads; a mock environment and the crate's
//! `verif_yield!` points are gates at which the controller holds them.
use crate::rng::Rng;
use crate::sched::*;
use crate::util::*;
use crate::Args;
use std::io::Write;
use std::sync::mpsc;
use std::sync::{Arc, Mutex};
use std::time::Duration;
use surrealkv::verif::pipeline::{Env, Pipeline};

#[derive(Clone, Default)]
struct Req {
    keys: Vec<u64>,
    fail_wal: bool,
    fail_apply_at: Option<u32>,
}

#[derive(Clone)]
struct Rec {
    thread: usize,
    start: u64,
    keys: Vec<u64>,
    first: Option<u64>,
    res: Option<String>,
}

struct MockEnv {
    log: Mutex<Vec<Rec>>,
    sched: Arc<Sched>,
    reqs: Mutex<Vec<Req>>,
    mem: Mutex<Vec<u64>>,
    batches: Mutex<Vec<(u64, u32, bool)>>,
}

impl MockEnv {
    fn mark_failed(&self, first: u64) {
        for b in self.batches.lock().unwrap().iter_mut() {
            if b.0 == first {
                b.2 = true;
            }
        }
    }
}

impl Env for MockEnv {
    fn write(&self, first: u64, count: u32, _sync: bool) -> Result<(), String> {
        let i = WORKER.with(|w| w.get()).expect("worker");
        self.batches.lock().unwrap().push((first, count, false));
        if let Some(r) = self.log.lock().unwrap().iter_mut().rev().find(|r| r.thread == i) {
            r.first = Some(first);
        }
        if self.reqs.lock().unwrap()[i].fail_wal {
            self.mark_failed(first);
            return Err("injected wal failure".into());
        }
        Ok(())
    }
    fn apply(&self, first: u64, count: u32) -> Result<(), String> {
        let i = WORKER.with(|w| w.get()).expect("worker");
        let fail_at = self.reqs.lock().unwrap()[i].fail_apply_at;
        for j in 0..count {
            self.sched.gate(&format!("apply_entry:{j}"));
            if fail_at == Some(j) {
                self.mark_failed(first);
                return Err("injected apply failure".into());
            }
            self.mem.lock().unwrap().push(first + j as u64);
        }
        Ok(())
    }
    fn oldest_active(&self) -> u64 {
        0
    }
}

pub fn gen(a: &Args) -> i32 {
    let mut out = std::io::BufWriter::new(std::fs::File::create(&a.out).expect("out"));
    let mut st = Stats::default();
    let overflow_mode = a.extra.get("mode").map(|s| s == "overflow").unwrap_or(false);
    for case in 0..a.cases {
        let mut r = Rng::for_case(a.seed, case);
        let n = r.range(2, if a.thorough { 6 } else { 4 });
        writeln!(out, "case {case} {n}").unwrap();
        let max_commits = if overflow_mode { 14 } else { 7 };
        let mut commits = 0;
        let nops = r.range(10, if a.thorough { 120 } else { 60 });
        let mut begun = vec![false; n as usize];
        let mut fails = 0;
        for _ in 0..nops {
            let x = r.below(100);
            if x < 18 && commits < max_commits {
                let i = r.below(n);
                let cnt = r.range(1, 3);
                let keys: Vec<String> = (0..cnt).map(|_| r.below(3).to_string()).collect();
                let fail_p = if overflow_mode { 2 } else { 8 };
                let fw = r.chance(1, fail_p + 2);
                let fa = if !fw && r.chance(1, fail_p) { r.below(cnt).to_string() } else { "-".into() };
                if fw || fa != "-" {
                    fails += 1;
                }
                writeln!(out, "begin {i} {} {} {}", keys.join(","), fw as u8, fa).unwrap();
                begun[i as usize] = true;
                commits += 1;
                st.bump("op_begin");
            } else if x < 90 {
                let i = r.below(n);
                writeln!(out, "step {i}").unwrap();
                st.bump("op_step");
            } else {
                writeln!(out, "probe").unwrap();
                st.bump("op_probe");
            }
        }
        writeln!(out, "drain").unwrap();
        writeln!(out, "probe").unwrap();
        if fails > 0 {
            st.bump("cases_with_injected_failure");
        }
        st.add("commits", commits);
    }
    out.flush().unwrap();
    if !a.stats.is_empty() {
        std::fs::write(&a.stats, st.to_json()).unwrap();
    }
    0
}

fn gate_name(s: &WState) -> String {
    match s {
        WState::Idle => "idle".into(),
        WState::Running => "running".into(),
        WState::Marked(_) => "idle".into(),
        WState::AtGate(g) => g.clone(),
    }
}

struct Case {
    sched: Arc<Sched>,
    env: Arc<MockEnv>,
    pipe: Arc<Pipeline>,
    txs: Vec<mpsc::Sender<Req>>,
    starts: Arc<Mutex<Vec<u64>>>,
    reported: Vec<usize>,
    hung: bool,
}

static CURRENT: Mutex<Option<Arc<Sched>>> = Mutex::new(None);

fn install_handler() {
    surrealkv::verif::set_yield_handler(Some(Arc::new(|name: &'static str| {
        let s = CURRENT.lock().unwrap().clone();
        let Some(s) = s else { return };
        match name {
            "commit.have_permit" => s.gate("have_permit"),
            "commit.after_apply" => s.gate("after_apply"),
            "commit.after_mark" => s.gate("after_mark"),
            "commit.wal_failed" => s.gate("wal_failed"),
            "publish.dequeued" => s.gate("dequeued"),
            "publish.visible_set" => s.gate("visible_set"),
            "commit.after_publish" => s.gate("after_publish"),
            "commit.before_wait" => s.mark("waiting"),
            _ => {}
        }
    })));
}

fn new_case(n: usize) -> Case {
    let sched = Sched::new(n);
    *CURRENT.lock().unwrap() = Some(Arc::clone(&sched));
    let env = Arc::new(MockEnv {
        log: Mutex::new(vec![]),
        sched: Arc::clone(&sched),
        reqs: Mutex::new(vec![Req::default(); n]),
        mem: Mutex::new(vec![]),
        batches: Mutex::new(vec![]),
    });
    let pipe = Arc::new(Pipeline::new(Arc::clone(&env) as Arc<dyn Env>));
    let starts = Arc::new(Mutex::new(vec![0u64; n]));
    let mut txs = vec![];
    for i in 0..n {
        let (tx, rx) = mpsc::channel::<Req>();
        txs.push(tx);
        let sched = Arc::clone(&sched);
        let env = Arc::clone(&env);
        let pipe = Arc::clone(&pipe);
        let starts = Arc::clone(&starts);
        std::thread::spawn(move || {
            WORKER.with(|w| w.set(Some(i)));
            let rt = tokio::runtime::Builder::new_current_thread().enable_all().build().unwrap();
            while let Ok(req) = rx.recv() {
                env.reqs.lock().unwrap()[i] = req.clone();
                let start = pipe.visible();
                starts.lock().unwrap()[i] = start;
                env.log.lock().unwrap().push(Rec { thread: i, start, keys: req.keys.clone(), first: None, res: None });
                sched.gate("begun");
                let keys: Vec<Vec<u8>> = req.keys.iter().map(|k| format!("key-{k}").into_bytes()).collect();
                let res = std::panic::catch_unwind(std::panic::AssertUnwindSafe(|| rt.block_on(pipe.commit(&keys, start))));
                let res = res.unwrap_or_else(|_| "PANIC".to_string());
                if let Some(r) = env.log.lock().unwrap().iter_mut().rev().find(|r| r.thread == i) {
                    r.res = Some(res.clone());
                }
                sched.finished(res);
            }
        });
    }
    Case { sched, env, pipe, txs, starts, reported: vec![0; n], hung: false }
}

fn probe(c: &Case) -> String {
    let v = c.pipe.visible();
    let mem = c.env.mem.lock().unwrap().clone();
    let mut bs = c.env.batches.lock().unwrap().clone();
    bs.sort();
    let parts: Vec<String> = bs
        .iter()
        .map(|(f, cnt, failed)| {
            let l = f + *cnt as u64 - 1;
            let k = mem.iter().filter(|s| **s >= *f && **s <= l).count();
            format!("{f}-{l}:{k}/{cnt}:{}", if *failed { "failed" } else { "ok" })
        })
        .collect();
    format!("vis={v} parts={}", if parts.is_empty() { "-".to_string() } else { parts.join(";") })
}

const T: Duration = Duration::from_secs(5);

fn do_step(c: &mut Case, i: usize) -> String {
    if c.hung {
        return "HANG".into();
    }
    // a thread about to acquire a permit is only released when one is available (otherwise it would
    // block inside the semaphore, which is not a yield point)
    if c.sched.state(i) == WState::AtGate("begun".into()) && c.pipe.available_permits() == 0 {
        // a waiter that has been completed releases its permit when it returns: give it a moment
        let n = c.txs.len();
        let deadline = std::time::Instant::now() + Duration::from_millis(300);
        while c.pipe.available_permits() == 0
            && (0..n).any(|j| matches!(c.sched.state(j), WState::Marked(_)))
            && std::time::Instant::now() < deadline
        {
            std::thread::sleep(Duration::from_millis(1));
        }
        if c.pipe.available_permits() == 0 {
            return format!("at=begun vis={}", c.pipe.visible());
        }
    }
    let was_at_gate = matches!(c.sched.state(i), WState::AtGate(_));
    match c.sched.step(i, T) {
        None => {
            c.hung = true;
            "HANG".into()
        }
        Some(s) => {
            let mut out = format!("at={} vis={}", gate_name(&s), c.pipe.visible());
            let via_wait = c.sched.m.lock().unwrap().marked[i];
            if s == WState::Idle && was_at_gate && !via_wait {
                let g = c.sched.m.lock().unwrap();
                if g.results[i].len() > c.reported[i] {
                    out.push_str(&format!(" res={}", g.results[i][c.reported[i]]));
                    drop(g);
                    c.reported[i] += 1;
                }
            }
            out
        }
    }
}

pub fn exec(a: &Args) -> i32 {
    install_handler();
    let text = std::fs::read_to_string(&a.ops).expect("ops");
    let mut out = std::io::BufWriter::new(std::fs::File::create(&a.out).expect("out"));
    let mut cur: Option<Case> = None;
    for line in text.lines() {
        let w: Vec<&str> = line.split_whitespace().collect();
        let res: String = match w.first().copied() {
            Some("case") => {
                cur = Some(new_case(w[2].parse().unwrap()));
                "-".into()
            }
            Some("begin") => {
                let c = cur.as_mut().unwrap();
                let i: usize = w[1].parse().unwrap();
                // a waiter whose batch has been completed wakes by itself: give it a moment
                if matches!(c.sched.state(i), WState::Marked(_)) {
                    c.sched.wait_for(i, Duration::from_millis(300), |s| *s == WState::Idle);
                }
                if c.sched.state(i) != WState::Idle || c.hung {
                    "busy".into()
                } else {
                    // results of calls that finished by themselves are reported at drain
                    let req = Req {
                        keys: w[2].split(',').map(|k| k.parse().unwrap()).collect(),
                        fail_wal: w[3] == "1",
                        fail_apply_at: w[4].parse().ok(),
                    };
                    {
                        let mut g = c.sched.m.lock().unwrap();
                        c.reported[i] = g.results[i].len();
                        g.marked[i] = false;
                    }
                    c.txs[i].send(req).unwrap();
                    if c.sched.wait_for(i, T, |s| matches!(s, WState::AtGate(_))) {
                        format!("start={}", c.starts.lock().unwrap()[i])
                    } else {
                        c.hung = true;
                        "HANG".into()
                    }
                }
            }
            Some("step") => {
                let c = cur.as_mut().unwrap();
                let i: usize = w[1].parse().unwrap();
                do_step(c, i)
            }
            Some("probe") => probe(cur.as_ref().unwrap()),
            Some("drain") => {
                let c = cur.as_mut().unwrap();
                let n = c.txs.len();
                // lowest-index thread at a gate first, until none is at a gate
                let mut guard = 0;
                loop {
                    guard += 1;
                    if guard > 10_000 || c.hung {
                        break;
                    }
                    let mut progressed = false;
                    for i in 0..n {
                        if matches!(c.sched.state(i), WState::AtGate(_)) {
                            let _ = do_step(c, i);
                            progressed = true;
                            break;
                        }
                    }
                    if !progressed {
                        break;
                    }
                }
                // every waiter must now return
                let mut hang = c.hung;
                for i in 0..n {
                    if !c.sched.wait_for(i, T, |s| *s == WState::Idle) {
                        hang = true;
                    }
                }
                let g = c.sched.m.lock().unwrap();
                let rs: Vec<String> = (0..n).map(|i| format!("{i}:{}", g.results[i].join(","))).collect();
                drop(g);
                // commit log: start/keys/first/result of every call, in begin order
                let log: Vec<String> = c.env.log.lock().unwrap().iter().map(|r| {
                    format!("{}/{}/{}/{}", r.start,
                        r.keys.iter().map(|k| k.to_string()).collect::<Vec<_>>().join("."),
                        r.first.map(|f| f.to_string()).unwrap_or("-".into()),
                        r.res.clone().unwrap_or("-".into()))
                }).collect();
                let logs = if log.is_empty() { "-".to_string() } else { log.join(";") };
                if hang {
                    c.hung = true;
                    format!("HANG vis={} res={} log={}", c.pipe.visible(), rs.join(";"), logs)
                } else {
                    format!("vis={} res={} log={}", c.pipe.visible(), rs.join(";"), logs)
                }
            }
            _ => "bad-op".into(),
        };
        writeln!(out, "{res}").unwrap();
    }
    out.flush().unwrap();
    *CURRENT.lock().unwrap() = None;
    0
}
