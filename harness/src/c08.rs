//! C08 — inside a transaction: read-your-writes, savepoints, rollback, modes.
//! Generator of transaction programs + executor against the public `Tree` API.
use crate::rng::Rng;
use crate::util::*;
use crate::Args;
use std::collections::BTreeSet;
use std::io::Write;
use surrealkv::{Mode, Tree, TreeBuilder};

const KEYS: &[&[u8]] = &[b"a", b"ab", b"a\x00", b"\xff", b"\x00", b"b", b"a\xff", b"abc"];
const VALS: &[&[u8]] = &[b"", b"v", b"\x00", b"\xff\xff", b"value-one", b"w"];

pub fn gen(a: &Args) -> i32 {
    let mut out = std::io::BufWriter::new(std::fs::File::create(&a.out).expect("out"));
    let mut st = Stats::default();
    for case in 0..a.cases {
        let mut r = Rng::for_case(a.seed, case);
        let mode = match r.below(10) {
            0 => "ro",
            1 => "wo",
            _ => "rw",
        };
        st.bump(&format!("mode_{mode}"));
        writeln!(out, "case {case} {mode}").unwrap();
        // key pool of this case: 1..4 keys
        let nk = r.range(1, 4) as usize;
        let mut pool: Vec<&[u8]> = Vec::new();
        while pool.len() < nk {
            let k = *r.pick(KEYS);
            if !pool.contains(&k) {
                pool.push(k);
            }
        }
        for k in &pool {
            if r.chance(1, 2) {
                writeln!(out, "snap {} {}", hex(k), hex(*r.pick(VALS))).unwrap();
            }
        }
        let max_ops = if a.thorough { 60 } else { 40 };
        let nops = r.range(1, max_ops);
        let mut depth = 0u32;
        let mut reversals = 0;
        let mut wrote = false;
        for _ in 0..nops {
            let k = if r.chance(1, 40) { &b""[..] } else { *r.pick(&pool) };
            let x = r.below(100);
            let line = if x < 22 {
                let ts = if r.chance(1, 5) { r.range(1, 3) } else { 0 };
                wrote = true;
                format!("set {} {} {}", hex(k), hex(*r.pick(VALS)), ts)
            } else if x < 30 {
                let ts = if r.chance(1, 6) { r.range(1, 3) } else { 0 };
                wrote = true;
                format!("del {} {}", hex(k), ts)
            } else if x < 36 {
                let ts = if r.chance(1, 6) { r.range(1, 3) } else { 0 };
                wrote = true;
                format!("sdel {} {}", hex(k), ts)
            } else if x < 41 {
                wrote = true;
                format!("rep {} {}", hex(k), hex(*r.pick(VALS)))
            } else if x < 70 {
                format!("get {}", hex(k))
            } else if x < 80 {
                depth += 1;
                "sp".to_string()
            } else if x < 90 {
                if depth > 0 {
                    depth -= 1;
                    reversals += 1;
                }
                "rbsp".to_string()
            } else if x < 93 {
                format!("conflict {} {}", hex(*r.pick(&pool)), hex(*r.pick(VALS)))
            } else if x < 95 {
                "rollback".to_string()
            } else {
                "commit".to_string()
            };
            st.bump(&format!("op_{}", line.split(' ').next().unwrap()));
            writeln!(out, "{line}").unwrap();
        }
        if r.chance(2, 3) {
            writeln!(out, "commit").unwrap();
            st.bump("op_commit");
        }
        for k in &pool {
            writeln!(out, "final {}", hex(k)).unwrap();
        }
        if wrote && reversals > 0 {
            st.bump("nontrivial_cases");
        }
        st.add("ops_total", nops);
    }
    out.flush().unwrap();
    if !a.stats.is_empty() {
        std::fs::write(&a.stats, st.to_json()).unwrap();
    }
    0
}

struct Exec {
    tree: Tree,
    rt: tokio::runtime::Runtime,
    dirty: BTreeSet<Vec<u8>>,
}

impl Exec {
    fn commit_other(&self, writes: &[(Vec<u8>, Option<Vec<u8>>)]) {
        if writes.is_empty() {
            return;
        }
        let mut t = self.tree.begin().expect("begin");
        for (k, v) in writes {
            match v {
                Some(v) => t.set(k, v).expect("set"),
                None => t.delete(k).expect("delete"),
            }
        }
        self.rt.block_on(t.commit()).expect("setup commit");
    }
}

pub fn exec(a: &Args) -> i32 {
    let dir = tempfile::tempdir().expect("tempdir");
    let rt = tokio::runtime::Builder::new_multi_thread().worker_threads(2).enable_all().build().unwrap();
    let tree = {
        let _g = rt.enter();
        TreeBuilder::new().with_path(dir.path().to_path_buf()).build().expect("build")
    };
    let mut ex = Exec { tree, rt, dirty: BTreeSet::new() };
    let text = std::fs::read_to_string(&a.ops).expect("ops");
    let mut out = std::io::BufWriter::new(std::fs::File::create(&a.out).expect("out"));
    let mut txn: Option<surrealkv::Transaction> = None;
    let mut pending_mode: Option<Mode> = None;
    let mut staged: Vec<(Vec<u8>, Vec<u8>)> = Vec::new();
    for line in text.lines() {
        let w: Vec<&str> = line.split_whitespace().collect();
        if w.is_empty() {
            writeln!(out, "-").unwrap();
            continue;
        }
        if w[0] == "case" {
            txn = None;
            staged.clear();
            pending_mode = Some(match w.get(2).copied() {
                Some("ro") => Mode::ReadOnly,
                Some("wo") => Mode::WriteOnly,
                _ => Mode::ReadWrite,
            });
            writeln!(out, "-").unwrap();
            continue;
        }
        if w[0] == "snap" {
            staged.push((unhex(w[1]), unhex(w[2])));
            writeln!(out, "-").unwrap();
            continue;
        }
        // first real op of the case: install the snapshot state, begin the transaction
        if let Some(m) = pending_mode.take() {
            let mut writes: Vec<(Vec<u8>, Option<Vec<u8>>)> = Vec::new();
            for k in ex.dirty.iter() {
                if !staged.iter().any(|(sk, _)| sk == k) {
                    writes.push((k.clone(), None));
                }
            }
            // last staged value wins in the model (`snap` prepends); apply in file order reversed
            let mut seen: BTreeSet<Vec<u8>> = BTreeSet::new();
            for (k, v) in staged.iter() {
                if seen.insert(k.clone()) {
                    // model looks up the *newest* snap line first: find last occurrence
                    let last = staged.iter().rev().find(|(sk, _)| sk == k).unwrap();
                    writes.push((k.clone(), Some(last.1.clone())));
                }
                let _ = v;
            }
            ex.commit_other(&writes);
            for (k, _) in staged.iter() {
                ex.dirty.insert(k.clone());
            }
            txn = Some(ex.tree.begin_with_mode(m).expect("begin"));
        }
        let res: String = match w[0] {
            "final" => {
                txn = None; // drop = rollback
                let t = ex.tree.begin().expect("begin");
                match t.get(unhex(w[1])) {
                    Ok(v) => opt_hex(&v),
                    Err(e) => format!("err:{}", err_name(&e)),
                }
            }
            "conflict" => {
                let k = unhex(w[1]);
                ex.dirty.insert(k.clone());
                ex.commit_other(&[(k, Some(unhex(w[2])))]);
                "-".to_string()
            }
            _ => {
                let t = txn.as_mut().expect("txn");
                let r: Result<Option<Option<Vec<u8>>>, surrealkv::Error> = match w[0] {
                    "set" => {
                        let ts: u64 = w[3].parse().unwrap();
                        let k = unhex(w[1]);
                        if !k.is_empty() { ex.dirty.insert(k.clone()); }
                        if ts == 0 { t.set(k, unhex(w[2])) } else { t.set_at(k, unhex(w[2]), ts) }.map(|_| None)
                    }
                    "del" => {
                        let ts: u64 = w[2].parse().unwrap();
                        let k = unhex(w[1]);
                        let o = surrealkv::WriteOptions::default().with_timestamp(if ts == 0 { None } else { Some(ts) });
                        t.delete_with_options(k, &o).map(|_| None)
                    }
                    "sdel" => {
                        let ts: u64 = w[2].parse().unwrap();
                        let k = unhex(w[1]);
                        let o = surrealkv::WriteOptions::default().with_timestamp(if ts == 0 { None } else { Some(ts) });
                        t.soft_delete_with_options(k, &o).map(|_| None)
                    }
                    "rep" => {
                        let k = unhex(w[1]);
                        if !k.is_empty() { ex.dirty.insert(k.clone()); }
                        t.replace(k, unhex(w[2])).map(|_| None)
                    }
                    "get" => t.get(unhex(w[1])).map(Some),
                    "sp" => t.set_savepoint().map(|_| None),
                    "rbsp" => t.rollback_to_savepoint().map(|_| None),
                    "rollback" => {
                        t.rollback();
                        Ok(None)
                    }
                    "commit" => ex.rt.block_on(t.commit()).map(|_| None),
                    other => panic!("bad op {other}"),
                };
                match r {
                    Ok(None) => "ok".to_string(),
                    Ok(Some(v)) => opt_hex(&v),
                    Err(e) => format!("err:{}", err_name(&e)),
                }
            }
        };
        writeln!(out, "{res}").unwrap();
    }
    out.flush().unwrap();
    drop(txn);
    let _ = ex.rt.block_on(ex.tree.close());
    0
}
