//! one-off probes of behaviours found while building the checks (kept for the record; not a check)
use surrealkv::{Options, TreeBuilder, WalRecoveryMode};

pub fn failed_open() -> i32 {
    let rt = tokio::runtime::Builder::new_multi_thread().worker_threads(2).enable_all().build().unwrap();
    let _g = rt.enter();
    let d = tempfile::tempdir().unwrap();
    let mk = || {
        let mut o = Options::new();
        o.path = d.path().to_path_buf();
        o.wal_recovery_mode = WalRecoveryMode::AbsoluteConsistency;
        o.flush_on_close = false;
        o
    };
    {
        let t = TreeBuilder::with_options(mk()).build().unwrap();
        let mut tx = t.begin().unwrap();
        tx.set(b"k", b"v").unwrap();
        rt.block_on(tx.commit()).unwrap();
        rt.block_on(t.close()).unwrap();
    }
    // a WAL segment with content exists only if close did not flush; make one by hand otherwise
    let wal = std::fs::read_dir(d.path().join("wal")).unwrap().flatten().map(|e| e.path()).find(|p| p.extension().map(|x| x == "wal").unwrap_or(false));
    println!("wal file: {wal:?}");
    let Some(wal) = wal else { return 0 };
    let orig = std::fs::read(&wal).unwrap();
    if orig.is_empty() {
        println!("empty wal; probe not applicable");
        return 0;
    }
    let mut bad = orig.clone();
    bad[10] ^= 0x40;
    std::fs::write(&wal, &bad).unwrap();
    let r1 = TreeBuilder::with_options(mk()).build();
    println!("open with damaged wal: {:?}", r1.as_ref().map(|_| "ok").map_err(|e| format!("{e:?}").chars().take(80).collect::<String>()));
    drop(r1);
    std::fs::write(&wal, &orig).unwrap();
    std::thread::sleep(std::time::Duration::from_millis(300));
    let r2 = TreeBuilder::with_options(mk()).build();
    println!("open after restoring the wal: {:?}", r2.as_ref().map(|_| "ok").map_err(|e| format!("{e:?}").chars().take(100).collect::<String>()));
    0
}

/// commits made after a repaired torn commit-log tail: do they survive the next crash?
pub fn repair_then_commit() -> i32 {
    let rt = tokio::runtime::Builder::new_multi_thread().worker_threads(2).enable_all().build().unwrap();
    let _g = rt.enter();
    let d = tempfile::tempdir().unwrap();
    let mk = |p: &std::path::Path| {
        let mut o = Options::new();
        o.path = p.to_path_buf();
        o.flush_on_close = false;
        o
    };
    {
        let t = TreeBuilder::with_options(mk(d.path())).build().unwrap();
        for i in 0..3 {
            let mut tx = t.begin().unwrap();
            tx.set(format!("a{i}").as_bytes(), b"v").unwrap();
            rt.block_on(tx.commit()).unwrap();
        }
        rt.block_on(t.close()).unwrap();
    }
    let wal = std::fs::read_dir(d.path().join("wal")).unwrap().flatten().map(|e| e.path()).find(|p| p.extension().map(|x| x == "wal").unwrap_or(false)).unwrap();
    let orig = std::fs::read(&wal).unwrap();
    // torn tail: cut the last record in the middle
    std::fs::write(&wal, &orig[..orig.len() - 5]).unwrap();
    let t = TreeBuilder::with_options(mk(d.path())).build().unwrap();
    let mut tx = t.begin().unwrap();
    tx.set(b"after-repair", b"v").unwrap();
    println!("commit after repair: {:?}", rt.block_on(tx.commit()).map_err(|e| format!("{e:?}")));
    // crash: copy the directory while the store is open
    let img = tempfile::tempdir().unwrap();
    fn copy_dir(src: &std::path::Path, dst: &std::path::Path) {
        std::fs::create_dir_all(dst).unwrap();
        for e in std::fs::read_dir(src).unwrap().flatten() {
            let p = e.path();
            if p.is_dir() {
                copy_dir(&p, &dst.join(e.file_name()));
            } else if e.file_name() != "LOCK" {
                let _ = std::fs::copy(&p, dst.join(e.file_name()));
            }
        }
    }
    copy_dir(d.path(), img.path());
    let t2 = TreeBuilder::with_options(mk(img.path())).build().unwrap();
    let tx = t2.begin().unwrap();
    for k in ["a0", "a1", "a2", "after-repair"] {
        println!("{k}: {:?}", tx.get(k.as_bytes()).map(|v| v.is_some()));
    }
    drop(t);
    0
}
