//! C17 (store level, background work): a real `Tree` with the default stall thresholds and a small
//! memtable; commits interleaved with checkpoints, explicit waits and reopen.  Every call must
//! return (watchdog: 20 s); a commit that returns an error although nothing failed is reported as
//! such.  Lines:
//!   case <n> <memkb>
//!   txn <id> <nkeys> <vlen>       commit `nkeys` keys `t<id>-k<i>` with values of `vlen` bytes
//!   ckpt                          create_checkpoint into a fresh directory
//!   get <id> <i>                  read back one key (some/none)
//!   reopen
//! Model (lean/Skv/Drv/BgWork.lean): every `txn` / `ckpt` / `reopen` answers `ok`, `get` answers
//! whether the transaction was committed.
use crate::rng::Rng;
use crate::util::*;
use crate::Args;
use std::io::Write;
use std::time::Duration;
use surrealkv::{Options, Tree, TreeBuilder};

pub fn gen(a: &Args) -> i32 {
    let mut out = std::io::BufWriter::new(std::fs::File::create(&a.out).expect("out"));
    let mut st = Stats::default();
    for case in 0..a.cases {
        let mut r = Rng::for_case(a.seed, case);
        let memkb = *r.pick(&[16u64, 64]);
        writeln!(out, "case {case} {memkb}").unwrap();
        let nops = if a.thorough { r.range(40, 400) } else { r.range(30, 160) };
        // how often a checkpoint follows a commit: some cases checkpoint after almost every commit
        let ck = *r.pick(&[2u64, 3, 5, 9]);
        let mut id = 0;
        for _ in 0..nops {
            let x = r.below(100);
            if x < 60 {
                id += 1;
                let (nk, vl) = if r.chance(1, 5) { (r.range(20, 60), 100) } else { (r.range(1, 6), r.range(1, 300)) };
                writeln!(out, "txn {id} {nk} {vl}").unwrap();
                st.bump("txn");
                if r.chance(1, ck) {
                    writeln!(out, "ckpt").unwrap();
                    st.bump("ckpt");
                }
            } else if x < 80 {
                writeln!(out, "ckpt").unwrap();
                st.bump("ckpt");
            } else if x < 96 && id > 0 {
                writeln!(out, "get {} 0", r.range(1, id + 2)).unwrap();
                st.bump("get");
            } else if x >= 98 {
                writeln!(out, "reopen").unwrap();
                st.bump("reopen");
            }
        }
    }
    if !a.stats.is_empty() {
        std::fs::write(&a.stats, st.to_json()).unwrap();
    }
    0
}

fn mk(p: &std::path::Path, memkb: usize) -> Options {
    let mut o = Options::new();
    o.path = p.to_path_buf();
    o.max_memtable_size = memkb * 1024;
    o // stall thresholds, compaction triggers: the defaults
}

pub fn exec(a: &Args) -> i32 {
    let rt = tokio::runtime::Builder::new_multi_thread().worker_threads(4).enable_all().build().unwrap();
    let _g = rt.enter();
    let text = std::fs::read_to_string(&a.ops).expect("ops");
    let mut out = std::io::BufWriter::new(std::fs::File::create(&a.out).expect("out"));
    let mut dir = tempfile::tempdir().expect("tempdir");
    let mut cks = tempfile::tempdir().expect("tempdir");
    let mut tree: Option<Tree> = None;
    let mut memkb = 64usize;
    let mut nck = 0;
    let mut wedged = false;
    let limit = Duration::from_secs(20);
    for line in text.lines() {
        let w: Vec<&str> = line.split_whitespace().collect();
        let res: String = match w.first().copied() {
            Some("case") => {
                if let Some(t) = tree.take() {
                    if !wedged {
                        let _ = rt.block_on(async { tokio::time::timeout(limit, t.close()).await });
                    } else {
                        std::mem::forget(t);
                    }
                }
                wedged = false;
                dir = tempfile::tempdir().expect("tempdir");
                cks = tempfile::tempdir().expect("tempdir");
                memkb = w[2].parse().unwrap();
                match TreeBuilder::with_options(mk(dir.path(), memkb)).build() {
                    Ok(t) => {
                        tree = Some(t);
                        "-".into()
                    }
                    Err(e) => format!("err:{}", err_name(&e)),
                }
            }
            _ if wedged => "H=wedged".into(),
            Some("txn") => match tree.as_ref() {
                None => "bad-op".into(),
                Some(t) => {
                    let id = w[1];
                    let nk: usize = w[2].parse().unwrap();
                    let vl: usize = w[3].parse().unwrap();
                    let r = rt.block_on(async {
                        tokio::time::timeout(limit, async {
                            let mut tx = t.begin()?;
                            for i in 0..nk {
                                tx.set(format!("t{id}-k{i}").as_bytes(), vec![b'v'; vl])?;
                            }
                            tx.commit().await
                        })
                        .await
                    });
                    match r {
                        Err(_) => {
                            wedged = true;
                            "HANG".into()
                        }
                        Ok(Ok(())) => "ok".into(),
                        Ok(Err(e)) => format!("err:{}", err_name(&e)),
                    }
                }
            },
            Some("ckpt") => match tree.as_ref() {
                None => "bad-op".into(),
                Some(t) => {
                    nck += 1;
                    match t.create_checkpoint(cks.path().join(format!("c{nck}"))) {
                        Ok(_) => "ok".into(),
                        Err(e) => format!("err:{}", err_name(&e)),
                    }
                }
            },
            Some("get") => match tree.as_ref() {
                None => "bad-op".into(),
                Some(t) => match t.begin().and_then(|tx| tx.get(format!("t{}-k{}", w[1], w[2]).as_bytes())) {
                    Ok(Some(_)) => "some".into(),
                    Ok(None) => "none".into(),
                    Err(e) => format!("err:{}", err_name(&e)),
                },
            },
            Some("reopen") => match tree.take() {
                None => "bad-op".into(),
                Some(t) => match rt.block_on(async { tokio::time::timeout(limit, t.close()).await }) {
                    Err(_) => {
                        wedged = true;
                        "HANG".into()
                    }
                    Ok(Err(e)) => format!("err:close:{}", err_name(&e)),
                    Ok(Ok(())) => match TreeBuilder::with_options(mk(dir.path(), memkb)).build() {
                        Ok(t) => {
                            tree = Some(t);
                            "ok".into()
                        }
                        Err(e) => format!("err:open:{}", err_name(&e)),
                    },
                },
            },
            _ => "bad-op".into(),
        };
        writeln!(out, "{res}").unwrap();
    }
    if let Some(t) = tree.take() {
        if !wedged {
            let _ = rt.block_on(async { tokio::time::timeout(limit, t.close()).await });
        } else {
            std::mem::forget(t);
        }
    }
    out.flush().unwrap();
    0
}
