//! C18: the B+tree index against an ordered map.  Keys and values are described by (id, length)
//! and expanded to bytes the same way on both sides; sizes range from one byte to several pages so
//! that splits, merges, redistribution, overflow chains and free-list reuse all happen; the tree is
//! closed and reopened at arbitrary points and audited (page conservation, no page owned twice, leaf
//! chain, key order) after every few operations.
use crate::rng::Rng;
use crate::util::*;
use crate::Args;
use std::io::Write;
use std::ops::Bound;
use std::sync::Arc;
use surrealkv::bplustree::tree::{new_disk_tree, DiskBPlusTree};
use surrealkv::{BytewiseComparator, Comparator, LSMIterator, TimestampComparator};

fn key_bytes(kid: u64, klen: usize, ts: u64, tsmode: bool) -> Vec<u8> {
    let mut k = vec![(kid >> 8) as u8, kid as u8];
    k.resize(klen.max(2), ((kid * 7 + 3) % 251) as u8);
    if tsmode {
        // encoded internal key: user key, trailer (seq 1, kind Set), timestamp
        k.extend_from_slice(&((1u64 << 8) | 2).to_be_bytes());
        k.extend_from_slice(&ts.to_be_bytes());
    }
    k
}

fn val_bytes(vid: u64, vlen: usize) -> Vec<u8> {
    let mut v = vid.to_be_bytes().to_vec();
    v.resize(vlen, (vid % 253) as u8);
    v.truncate(vlen);
    v
}

fn klen_of(r: &mut Rng, big: bool) -> usize {
    match r.below(if big { 6 } else { 12 }) {
        0 => 2,
        1 => r.range(600, 3600) as usize,
        2 if big => r.range(1500, 4200) as usize,
        _ => r.range(4, 44) as usize,
    }
}

fn vlen_of(r: &mut Rng, big: bool) -> usize {
    match r.below(if big { 5 } else { 10 }) {
        0 => 0,
        1 => r.range(3000, 12000) as usize,
        _ => r.range(1, 200) as usize,
    }
}

pub fn gen(a: &Args) -> i32 {
    let mut out = std::io::BufWriter::new(std::fs::File::create(&a.out).expect("out"));
    let mut st = Stats::default();
    for case in 0..a.cases {
        let mut r = Rng::for_case(a.seed, case);
        let tsmode = r.chance(1, 3);
        let big = r.chance(1, 3);
        writeln!(out, "case {case} {}", if tsmode { "ts" } else { "bw" }).unwrap();
        st.bump(if tsmode { "order_timestamp" } else { "order_bytewise" });
        if r.chance(1, 5) {
            heavy_case(&mut out, &mut r, &mut st, tsmode, a.thorough);
            continue;
        }
        let nkeys = r.range(8, if a.thorough { 220 } else { 90 });
        // a fixed length per key id; in ts mode several timestamps per id
        let klens: Vec<usize> = (0..nkeys).map(|_| klen_of(&mut r, big)).collect();
        let nops = r.range(30, if a.thorough { 600 } else { 260 });
        let mut vid = 0u64;
        let pick = |r: &mut Rng| -> (u64, usize, u64) {
            // skewed: half of the operations hit an eighth of the keys
            let kid = if r.chance(1, 2) { r.below((nkeys / 8).max(1)) } else { r.below(nkeys) };
            let ts = if tsmode { r.below(4) * 10 } else { 0 };
            (kid, klens[kid as usize], ts)
        };
        for i in 0..nops {
            let x = r.below(100);
            // grow first, then churn
            let grow = i < nops / 3;
            if x < if grow { 75 } else { 35 } {
                let (kid, kl, ts) = pick(&mut r);
                vid += 1;
                writeln!(out, "ins {kid}:{kl}:{ts} {vid}:{}", vlen_of(&mut r, big)).unwrap();
                st.bump("ins");
            } else if x < if grow { 80 } else { 65 } {
                let (kid, kl, ts) = pick(&mut r);
                writeln!(out, "del {kid}:{kl}:{ts}").unwrap();
                st.bump("del");
            } else if x < 78 {
                let (kid, kl, ts) = pick(&mut r);
                writeln!(out, "get {kid}:{kl}:{ts}").unwrap();
                st.bump("get");
            } else if x < 86 {
                let (a1, l1, t1) = pick(&mut r);
                let (a2, l2, t2) = pick(&mut r);
                let lo = if r.chance(1, 5) { "-".to_string() } else { format!("{a1}:{l1}:{t1}") };
                let hi = if r.chance(1, 5) { "-".to_string() } else { format!("{a2}:{l2}:{t2}") };
                writeln!(out, "range {lo} {hi} {} {}", r.below(2), r.below(2)).unwrap();
                st.bump("range");
            } else if x < 90 {
                writeln!(out, "scan {}", if r.chance(1, 2) { "fwd" } else { "bwd" }).unwrap();
                st.bump("scan");
            } else if x < 95 {
                writeln!(out, "reopen").unwrap();
                st.bump("reopen");
            } else {
                writeln!(out, "audit").unwrap();
                st.bump("audit");
            }
        }
        writeln!(out, "reopen").unwrap();
        writeln!(out, "audit").unwrap();
        writeln!(out, "scan fwd").unwrap();
    }
    if !a.stats.is_empty() {
        std::fs::write(&a.stats, st.to_json()).unwrap();
    }
    0
}

/// a tree of three or more levels whose separators own overflow chains (every key above the
/// on-page limit of an internal node), shrunk from one end or the middle so that internal nodes
/// underflow next to a well-filled sibling (merge / redistribution through the parent), then grown
/// again so that freed pages are reused, with audits in between and a reopen
fn heavy_case(out: &mut impl Write, r: &mut Rng, st: &mut Stats, tsmode: bool, thorough: bool) {
    st.bump("heavy_case");
    let nkeys = r.range(150, if thorough { 520 } else { 340 });
    let klens: Vec<usize> = (0..nkeys).map(|_| if r.chance(1, 10) { r.range(4, 40) as usize } else { r.range(1050, 1900) as usize }).collect();
    let mut vid = 0u64;
    let mut vl = |r: &mut Rng| -> usize { if r.chance(1, 8) { r.range(1200, 2500) as usize } else { r.range(0, 24) as usize } };
    let ts = |r: &mut Rng| if tsmode { r.below(2) * 10 } else { 0 };
    // 1. insert every key, in random order
    let mut order: Vec<u64> = (0..nkeys).collect();
    for i in (1..order.len()).rev() {
        order.swap(i, r.below(i as u64 + 1) as usize);
    }
    for k in &order {
        vid += 1;
        writeln!(out, "ins {k}:{}:{} {vid}:{}", klens[*k as usize], ts(r), vl(r)).unwrap();
        st.bump("ins");
    }
    writeln!(out, "audit").unwrap();
    for round in 0..2 {
        // 2. delete a contiguous stretch of the key space
        let len = nkeys * r.range(40, 75) / 100;
        let (lo, desc) = match r.below(3) {
            0 => (nkeys - len, true),  // from the top, descending
            1 => (0, false),           // from the bottom, ascending
            _ => (r.below(nkeys - len + 1), r.chance(1, 2)),
        };
        st.bump(if desc { "heavy_delete_desc" } else { "heavy_delete_asc" });
        for j in 0..len {
            let k = if desc { lo + len - 1 - j } else { lo + j };
            for t in if tsmode { vec![0, 10] } else { vec![0] } {
                writeln!(out, "del {k}:{}:{t}", klens[k as usize]).unwrap();
                st.bump("del");
            }
            if j % 12 == 11 {
                writeln!(out, "audit").unwrap();
                st.bump("audit");
            }
        }
        writeln!(out, "audit").unwrap();
        writeln!(out, "scan {}", if r.chance(1, 2) { "fwd" } else { "bwd" }).unwrap();
        // 3. grow again: new and overwritten keys reuse the freed pages
        for _ in 0..r.range(40, 160) {
            let k = r.below(nkeys);
            vid += 1;
            writeln!(out, "ins {k}:{}:{} {vid}:{}", klens[k as usize], ts(r), vl(r)).unwrap();
            st.bump("ins");
            if r.chance(1, 6) {
                let g = r.below(nkeys);
                writeln!(out, "get {g}:{}:{}", klens[g as usize], ts(r)).unwrap();
                st.bump("get");
            }
        }
        writeln!(out, "audit").unwrap();
        if round == 0 {
            writeln!(out, "reopen").unwrap();
            st.bump("reopen");
        }
    }
    writeln!(out, "reopen").unwrap();
    writeln!(out, "audit").unwrap();
    writeln!(out, "scan fwd").unwrap();
}

fn parse_key(s: &str) -> (u64, usize, u64) {
    let p: Vec<&str> = s.split(':').collect();
    (p[0].parse().unwrap(), p[1].parse().unwrap(), p.get(2).map(|x| x.parse().unwrap()).unwrap_or(0))
}

/// back from bytes to the (id, length, ts) description
fn show_key(k: &[u8], tsmode: bool) -> String {
    let (uk, ts) = if tsmode && k.len() >= 18 {
        (&k[..k.len() - 16], u64::from_be_bytes(k[k.len() - 8..].try_into().unwrap()))
    } else {
        (k, 0)
    };
    let kid = ((uk[0] as u64) << 8) | uk[1] as u64;
    format!("{kid}:{}:{ts}", uk.len())
}

fn show_val(v: &[u8]) -> String {
    // the value id is the first 8 bytes when the value is long enough; shorter values show their length only
    if v.len() >= 8 {
        format!("{}:{}", u64::from_be_bytes(v[..8].try_into().unwrap()), v.len())
    } else {
        format!("?:{}", v.len())
    }
}

fn check_val(v: &[u8]) -> bool {
    // every byte after the 8-byte id must be the filler of that id
    if v.len() < 8 {
        return true;
    }
    let vid = u64::from_be_bytes(v[..8].try_into().unwrap());
    v[8..].iter().all(|b| *b == (vid % 253) as u8)
}

pub fn exec(a: &Args) -> i32 {
    let text = std::fs::read_to_string(&a.ops).expect("ops");
    let mut out = std::io::BufWriter::new(std::fs::File::create(&a.out).expect("out"));
    let mut dir = tempfile::tempdir().expect("tempdir");
    let mut tree: Option<DiskBPlusTree> = None;
    let mut tsmode = false;
    let cmp = |ts: bool| -> Arc<dyn Comparator> {
        if ts {
            Arc::new(TimestampComparator::new(Arc::new(BytewiseComparator::default())))
        } else {
            Arc::new(BytewiseComparator::default())
        }
    };
    for line in text.lines() {
        let w: Vec<&str> = line.split_whitespace().collect();
        let res = std::panic::catch_unwind(std::panic::AssertUnwindSafe(|| -> String {
            let e2s = |e: &dyn std::fmt::Display| format!("err:{}", e.to_string().replace(' ', "_").chars().take(90).collect::<String>());
            match w.first().copied() {
                Some("case") => {
                    tree = None;
                    dir = tempfile::tempdir().expect("tempdir");
                    tsmode = w.get(2).copied() == Some("ts");
                    match new_disk_tree(dir.path().join("index.bpt"), cmp(tsmode)) {
                        Ok(t) => {
                            tree = Some(t);
                            "-".into()
                        }
                        Err(e) => e2s(&e),
                    }
                }
                Some("ins") => {
                    let Some(t) = tree.as_mut() else { return "bad-op".into() };
                    let (kid, kl, ts) = parse_key(w[1]);
                    let vp: Vec<&str> = w[2].split(':').collect();
                    let v = val_bytes(vp[0].parse().unwrap(), vp[1].parse().unwrap());
                    match t.insert(key_bytes(kid, kl, ts, tsmode), v) {
                        Ok(()) => "ok".into(),
                        Err(e) => e2s(&e),
                    }
                }
                Some("del") => {
                    let Some(t) = tree.as_mut() else { return "bad-op".into() };
                    let (kid, kl, ts) = parse_key(w[1]);
                    match t.delete(&key_bytes(kid, kl, ts, tsmode)) {
                        Ok(None) => "none".into(),
                        Ok(Some(v)) => format!("some {}{}", show_val(&v), if check_val(&v) { "" } else { " GARBLED" }),
                        Err(e) => e2s(&e),
                    }
                }
                Some("get") => {
                    let Some(t) = tree.as_ref() else { return "bad-op".into() };
                    let (kid, kl, ts) = parse_key(w[1]);
                    match t.get(&key_bytes(kid, kl, ts, tsmode)) {
                        Ok(None) => "none".into(),
                        Ok(Some(v)) => format!("some {}{}", show_val(&v), if check_val(&v) { "" } else { " GARBLED" }),
                        Err(e) => e2s(&e),
                    }
                }
                Some("range") => {
                    let Some(t) = tree.as_ref() else { return "bad-op".into() };
                    let lo = if w[1] == "-" { None } else { Some(parse_key(w[1])) };
                    let hi = if w[2] == "-" { None } else { Some(parse_key(w[2])) };
                    let lob = lo.map(|(k, l, ts)| key_bytes(k, l, ts, tsmode));
                    let hib = hi.map(|(k, l, ts)| key_bytes(k, l, ts, tsmode));
                    let lb: Bound<&[u8]> = match &lob {
                        None => Bound::Unbounded,
                        Some(b) => {
                            if w[3] == "1" {
                                Bound::Included(b.as_slice())
                            } else {
                                Bound::Excluded(b.as_slice())
                            }
                        }
                    };
                    let hb: Bound<&[u8]> = match &hib {
                        None => Bound::Unbounded,
                        Some(b) => {
                            if w[4] == "1" {
                                Bound::Included(b.as_slice())
                            } else {
                                Bound::Excluded(b.as_slice())
                            }
                        }
                    };
                    let it = match t.range((lb, hb)) {
                        Ok(it) => it,
                        Err(e) => return e2s(&e),
                    };
                    let mut items = vec![];
                    for kv in it {
                        match kv {
                            Ok((k, v)) => items.push(format!("{}={}{}", show_key(&k, tsmode), show_val(&v), if check_val(&v) { "" } else { "!GARBLED" })),
                            Err(e) => return e2s(&e),
                        }
                        if items.len() > 5000 {
                            return "err:runaway".into();
                        }
                    }
                    if items.is_empty() {
                        "-".into()
                    } else {
                        items.join(",")
                    }
                }
                Some("scan") => {
                    let Some(t) = tree.as_ref() else { return "bad-op".into() };
                    let mut it = t.internal_iterator();
                    let fwd = w[1] == "fwd";
                    let mut items = vec![];
                    let mut ok = match if fwd { it.seek_first() } else { it.seek_last() } {
                        Ok(b) => b,
                        Err(e) => return e2s(&e),
                    };
                    while ok && it.valid() {
                        let k = it.key().encoded().to_vec();
                        let v = match it.value_encoded() {
                            Ok(v) => v.to_vec(),
                            Err(e) => return e2s(&e),
                        };
                        items.push(format!("{}={}{}", show_key(&k, tsmode), show_val(&v), if check_val(&v) { "" } else { "!GARBLED" }));
                        if items.len() > 5000 {
                            return "err:runaway".into();
                        }
                        ok = match if fwd { it.next() } else { it.prev() } {
                            Ok(b) => b,
                            Err(e) => return e2s(&e),
                        };
                    }
                    if items.is_empty() {
                        "-".into()
                    } else {
                        items.join(",")
                    }
                }
                Some("reopen") => {
                    let Some(t) = tree.take() else { return "bad-op".into() };
                    if let Err(e) = t.close() {
                        return e2s(&e);
                    }
                    drop(t);
                    match new_disk_tree(dir.path().join("index.bpt"), cmp(tsmode)) {
                        Ok(t) => {
                            tree = Some(t);
                            "ok".into()
                        }
                        Err(e) => e2s(&e),
                    }
                }
                Some("audit") => {
                    let Some(t) = tree.as_mut() else { return "bad-op".into() };
                    match t.verif_audit() {
                        Err(e) => e2s(&e),
                        Ok(au) => {
                            let accounted = 1 + au.node_pages + au.overflow_pages + au.trunk_pages + au.free_pages;
                            let mut bad = vec![];
                            if accounted != au.total_pages {
                                bad.push(format!("pages:total={}_accounted={}(nodes={},overflow={},trunk={},free={})", au.total_pages, accounted, au.node_pages, au.overflow_pages, au.trunk_pages, au.free_pages));
                            }
                            if au.free_pages != au.free_page_count {
                                bad.push(format!("free-count:header={}_walk={}", au.free_page_count, au.free_pages));
                            }
                            if au.duplicates != 0 {
                                bad.push(format!("page-owned-twice:{}", au.duplicates));
                            }
                            if !au.leaf_chain_ok {
                                bad.push("leaf-chain".into());
                            }
                            if !au.order_ok {
                                bad.push("key-order".into());
                            }
                            if bad.is_empty() {
                                format!("ok keys={}", au.leaf_sizes.iter().sum::<usize>())
                            } else {
                                format!("BAD {}", bad.join(";"))
                            }
                        }
                    }
                }
                _ => "bad-op".into(),
            }
        }));
        let res = res.unwrap_or_else(|p| {
            let msg = p.downcast_ref::<String>().cloned().or_else(|| p.downcast_ref::<&str>().map(|s| s.to_string())).unwrap_or_default();
            format!("PANIC:{}", msg.replace(' ', "_").chars().take(80).collect::<String>())
        });
        writeln!(out, "{res}").unwrap();
    }
    out.flush().unwrap();
    0
}
