//! C10: versioned reads on a real store.  Timestamped sets, soft deletes, hard deletes and
//! replaces (timestamps strictly increasing per key) on a `Tree` with versioning, with or without
//! the B+tree version index; `get_at` and `history` with every option, forward and backward, before
//! and after flush / reopen (and compaction, whose known losses are covered by the exhaustive
//! per-key stream: after a compaction the case is counted, not judged).  `crashflush <point>`: the
//! store is replaced by the crash image taken at that file-operation boundary of a flush.
use crate::rng::Rng;
use crate::util::*;
use crate::Args;
use std::io::Write;
use surrealkv::verif::{clock, store as vs};
use surrealkv::{HistoryOptions, LSMIterator, Options, Tree, TreeBuilder, WriteOptions};

pub fn gen(a: &Args) -> i32 {
    let mut out = std::io::BufWriter::new(std::fs::File::create(&a.out).expect("out"));
    let mut st = Stats::default();
    for case in 0..a.cases {
        let mut r = Rng::for_case(a.seed, case);
        let index = r.chance(1, 2) as u8;
        let with_compaction = r.chance(1, 4);
        // with the version index: half of the cases back-fill older timestamps (sets only). A history is then asked for
        // only while nothing of the case has been flushed, or right after a flush (everything in the index): the order
        // in which unflushed versions are listed is the known finding `history-commit-order-until-flush`
        let ooo = index == 1 && !with_compaction && r.chance(1, 2);
        let mut dirty = false;
        let mut flushed_any = false;
        writeln!(out, "case {case} {index} 0 {} {}", with_compaction as u8, ooo as u8).unwrap();
        st.bump(if index == 1 { "backend_bptree" } else { "backend_lsm" });
        if ooo {
            st.bump("out_of_order_timestamps");
        }
        let nk = r.range(1, 3);
        let nops = r.range(6, if a.thorough { 40 } else { 20 });
        let mut ts = 10u64;
        let mut vctr = 0u64;
        let mut max_ts = 10u64;
        let mut all_ts: Vec<u64> = vec![];
        for _ in 0..nops {
            let x = r.below(100);
            let k = r.below(nk);
            if x < 45 && ooo {
                dirty = true;
                vctr += 1;
                let mut t = 0;
                if max_ts > 12 && r.chance(1, 2) {
                    // an older timestamp not used yet
                    for _ in 0..20 {
                        let c = r.range(5, max_ts - 1);
                        if !all_ts.contains(&c) {
                            t = c;
                            break;
                        }
                    }
                }
                if t == 0 {
                    ts = max_ts + r.range(1, 9);
                    max_ts = ts;
                    t = ts;
                } else {
                    st.bump("put_backfilled");
                }
                all_ts.push(t);
                writeln!(out, "put {k} {t} {vctr}").unwrap();
                st.bump("put");
            } else if x < 45 {
                ts += r.range(1, 9);
                max_ts = ts;
                all_ts.push(ts);
                // cases with compaction use sets and soft deletes only: compaction must then keep every version
                // (hard deletes / replaces under compaction are the known finding of the per-key stream)
                let pick = if with_compaction { r.below(7) } else { r.below(10) };
                match pick {
                    0..=4 => {
                        vctr += 1;
                        writeln!(out, "put {k} {ts} {vctr}").unwrap();
                        st.bump("put");
                    }
                    5 | 6 => {
                        writeln!(out, "sdel {k} {ts}").unwrap();
                        st.bump("soft_delete");
                    }
                    7 => {
                        writeln!(out, "del {k} {ts}").unwrap();
                        st.bump("hard_delete");
                    }
                    _ => {
                        vctr += 1;
                        writeln!(out, "repl {k} {ts} {vctr}").unwrap();
                        st.bump("replace");
                    }
                }
            } else if x < 60 {
                let t = r.range(5, max_ts + 5);
                writeln!(out, "getat {k} {t}").unwrap();
                st.bump("getat");
            } else if x < 85 && ooo && dirty && flushed_any {
                // versions of the case sit in the index and in a memtable: no history asked (see above)
                let t = r.range(5, max_ts + 5);
                writeln!(out, "getat {k} {t}").unwrap();
                st.bump("getat");
            } else if x < 85 {
                let lo = r.below(nk);
                let hi = r.range(lo, nk);
                let tombs = r.below(2);
                let (ra, rb) = if r.chance(1, 3) {
                    // range ends often sit exactly on existing timestamps
                    let a1 = if !all_ts.is_empty() && r.chance(2, 3) { *r.pick(&all_ts) } else { r.range(5, max_ts) };
                    let b1 = if r.chance(1, 3) { u64::MAX / 2 } else { r.range(a1, max_ts + 5) };
                    (a1.to_string(), b1.to_string())
                } else {
                    ("-".to_string(), "-".to_string())
                };
                let dir = if r.chance(1, 3) { "bwd" } else { "fwd" };
                let limit = if dir == "fwd" && r.chance(1, 4) { r.range(1, 4).to_string() } else { "-".to_string() };
                writeln!(out, "hist {lo} {hi} {tombs} {ra} {rb} {limit} {dir}").unwrap();
                st.bump(&format!("hist_{dir}{}{}", if ra != "-" { "_range" } else { "" }, if limit != "-" { "_limit" } else { "" }));
            } else if x < 92 && ooo {
                writeln!(out, "flush").unwrap();
                st.bump("flush");
                dirty = false;
                flushed_any = true;
            } else if x < 92 {
                if r.chance(1, 3) {
                    // a crash inside the flush: the store continues from the image taken at that file-operation boundary
                    let point = *r.pick(&["flush.sst_written", "flush.index_written", "flush.manifest_written", "flush.done"]);
                    writeln!(out, "crashflush {point}").unwrap();
                    st.bump(&format!("crash_{point}"));
                } else {
                    writeln!(out, "flush").unwrap();
                    st.bump("flush");
                }
            } else if x < 96 {
                writeln!(out, "reopen").unwrap();
                st.bump("reopen");
                if dirty {
                    flushed_any = true; // a clean close flushes everything
                }
                dirty = false;
            } else if with_compaction {
                writeln!(out, "compact").unwrap();
                st.bump("compact");
            }
        }
        if with_compaction {
            // everything into the tables of the lower level, then a ranged query starting exactly at every timestamp
            writeln!(out, "flush").unwrap();
            writeln!(out, "compact").unwrap();
            for t in all_ts.iter().rev().take(10) {
                writeln!(out, "hist 0 {nk} 1 {t} {} - {}", u64::MAX / 2, if r.chance(1, 2) { "fwd" } else { "bwd" }).unwrap();
            }
            st.bump("ranged_sweep_after_compaction");
        }
        // final complete listings
        if ooo && dirty && flushed_any {
            writeln!(out, "flush").unwrap();
        }
        if ooo {
            for t in all_ts.iter().take(12) {
                writeln!(out, "getat {} {t}", r.below(nk)).unwrap();
            }
        }
        writeln!(out, "hist 0 {nk} 1 - - - fwd").unwrap();
        writeln!(out, "hist 0 {nk} 0 - - - bwd").unwrap();
    }
    if !a.stats.is_empty() {
        std::fs::write(&a.stats, st.to_json()).unwrap();
    }
    0
}

fn key(k: &str) -> Vec<u8> {
    format!("k{k}").into_bytes()
}

pub fn exec(a: &Args) -> i32 {
    let rt = tokio::runtime::Builder::new_multi_thread().worker_threads(2).enable_all().build().unwrap();
    let _g = rt.enter();
    let text = std::fs::read_to_string(&a.ops).expect("ops");
    let mut out = std::io::BufWriter::new(std::fs::File::create(&a.out).expect("out"));
    let mut dir = tempfile::tempdir().expect("tempdir");
    let mut tree: Option<Tree> = None;
    let mut clk: Option<clock::Handle> = None;
    let mut index = false;
    let mut compacted = false;
    let mut auto_compact = false;
    let mk = |p: &std::path::Path, index: bool, auto_compact: bool, clk: &mut Option<clock::Handle>| -> Options {
        let mut o = Options::new();
        o.path = p.to_path_buf();
        o.enable_versioning = true;
        o.enable_vlog = true; // versioned queries require the value log, with every value in it
        o.vlog_value_threshold = 0;
        o.versioned_history_retention_ns = 0;
        o.enable_versioned_index = index;
        o.level_count = 2;
        // the background task never compacts (a compaction that runs while a reader is open drops versions: known
        // finding (c) of the per-key stream, and when it runs is a matter of timing); cases with the compaction flag
        // compact at chosen points through the eager round of the hooks
        let _ = auto_compact;
        o.level0_max_files = 1000;
        o.max_bytes_for_level = 1 << 40;
        o.l0_stall_threshold = 1000;
        o.memtable_stall_threshold = 1000;
        match clk {
            Some(h) => h.install_into(&mut o),
            None => *clk = Some(clock::install(&mut o, 1)),
        }
        o
    };
    for line in text.lines() {
        let w: Vec<&str> = line.split_whitespace().collect();
        let res = std::panic::catch_unwind(std::panic::AssertUnwindSafe(|| -> String {
            let en = |e: &surrealkv::Error| format!("err:{}", err_name(e));
            match w.first().copied() {
                Some("case") => {
                    if let Some(t) = tree.take() {
                        let _ = rt.block_on(t.close());
                    }
                    dir = tempfile::tempdir().expect("tempdir");
                    index = w[2] == "1";
                    auto_compact = w.get(4).copied() == Some("1");
                    clk = None;
                    compacted = false;
                    match TreeBuilder::with_options(mk(dir.path(), index, auto_compact, &mut clk)).build() {
                        Ok(t) => {
                            tree = Some(t);
                            "-".into()
                        }
                        Err(e) => en(&e),
                    }
                }
                Some(op @ ("put" | "del" | "sdel" | "repl")) => {
                    let Some(t) = tree.as_ref() else { return "bad-op".into() };
                    let ts: u64 = w[2].parse().unwrap();
                    let r = (|| -> Result<(), surrealkv::Error> {
                        let mut tx = t.begin()?;
                        let wo = WriteOptions::default().with_timestamp(Some(ts));
                        match op {
                            "put" => tx.set_at(key(w[1]), format!("v{}", w[3]).into_bytes(), ts)?,
                            "del" => tx.delete_with_options(key(w[1]), &wo)?,
                            "sdel" => tx.soft_delete_with_options(key(w[1]), &wo)?,
                            _ => {
                                // replace takes the commit time: set the clock to it
                                clk.as_ref().unwrap().set(ts);
                                tx.replace(key(w[1]), format!("v{}", w[3]).into_bytes())?
                            }
                        }
                        rt.block_on(tx.commit())
                    })();
                    match r {
                        Ok(()) => "ok".into(),
                        Err(e) => en(&e),
                    }
                }
                Some("getat") => {
                    let Some(t) = tree.as_ref() else { return "bad-op".into() };
                    let h = if compacted { " H=compaction" } else { "" };
                    let r = (|| -> Result<Option<Vec<u8>>, surrealkv::Error> {
                        let tx = t.begin()?;
                        tx.get_at(key(w[1]), w[2].parse().unwrap())
                    })();
                    match r {
                        Ok(None) => format!("none{h}"),
                        Ok(Some(v)) => format!("{}{h}", String::from_utf8_lossy(&v)),
                        Err(e) => en(&e),
                    }
                }
                Some("hist") => {
                    let Some(t) = tree.as_ref() else { return "bad-op".into() };
                    let h = if compacted { " H=compaction" } else { "" };
                    let lo = key(w[1]);
                    let hi = key(w[2]);
                    let mut o = HistoryOptions::new().with_tombstones(w[3] == "1");
                    if w[4] != "-" {
                        o = o.with_ts_range(w[4].parse().unwrap(), w[5].parse().unwrap());
                    }
                    if w[6] != "-" {
                        o = o.with_limit(w[6].parse().unwrap());
                    }
                    let fwd = w[7] == "fwd";
                    let r = (|| -> Result<Vec<String>, surrealkv::Error> {
                        let tx = t.begin()?;
                        let mut it = tx.history_with_options(lo, hi, &o)?;
                        let mut items = vec![];
                        let mut ok = if fwd { it.seek_first()? } else { it.seek_last()? };
                        while ok && it.valid() {
                            let k = it.key();
                            let kind = if k.is_replace() {
                                "R"
                            } else if k.is_hard_delete_marker() {
                                "D"
                            } else if k.is_tombstone() {
                                "T"
                            } else {
                                "S"
                            };
                            let val = if k.is_tombstone() { "-".to_string() } else { String::from_utf8_lossy(&it.value()?).to_string() };
                            items.push(format!("{}@{}:{}={}", String::from_utf8_lossy(k.user_key()), k.timestamp(), kind, val));
                            if items.len() > 500 {
                                break;
                            }
                            ok = if fwd { it.next()? } else { it.prev()? };
                        }
                        Ok(items)
                    })();
                    match r {
                        Ok(items) => format!("{}{h}", if items.is_empty() { "-".to_string() } else { items.join(",") }),
                        Err(e) => en(&e),
                    }
                }
                Some("flush") => {
                    let Some(t) = tree.as_ref() else { return "bad-op".into() };
                    match vs::rotate(t).and_then(|_| vs::flush_immutables(t)) {
                        Ok(()) => "ok".into(),
                        Err(e) => format!("err:{}", e.replace(' ', "_")),
                    }
                }
                Some("crashflush") => {
                    let Some(t) = tree.take() else { return "bad-op".into() };
                    let point = w[1].to_string();
                    let img = tempfile::tempdir().expect("tempdir");
                    let taken = std::sync::Arc::new(std::sync::Mutex::new(false));
                    {
                        let (src, dst, taken) = (dir.path().to_path_buf(), img.path().to_path_buf(), std::sync::Arc::clone(&taken));
                        surrealkv::verif::set_yield_handler(Some(std::sync::Arc::new(move |name: &'static str| {
                            if name == point {
                                let mut g = taken.lock().unwrap();
                                if !*g {
                                    crate::crash::copy_dir(&src, &dst);
                                    *g = true;
                                }
                            }
                        })));
                    }
                    let fl = vs::rotate(&t).and_then(|_| vs::flush_immutables(&t));
                    surrealkv::verif::set_yield_handler(None);
                    let was_taken = *taken.lock().unwrap();
                    if !was_taken {
                        // nothing to flush (empty memtable): the store simply continues
                        tree = Some(t);
                        return match fl {
                            Ok(()) => "ok".into(),
                            Err(e) => format!("err:{}", e.replace(' ', "_")),
                        };
                    }
                    let _ = rt.block_on(t.close());
                    dir = img;
                    match TreeBuilder::with_options(mk(dir.path(), index, auto_compact, &mut clk)).build() {
                        Ok(t) => {
                            tree = Some(t);
                            "ok".into()
                        }
                        Err(e) => en(&e),
                    }
                }
                Some("compact") => {
                    let Some(t) = tree.as_ref() else { return "bad-op".into() };
                    match vs::compact_round_eager(t) {
                        Ok(()) => "ok".into(),
                        Err(e) => format!("err:{}", e.replace(' ', "_")),
                    }
                }
                Some("reopen") => {
                    let Some(t) = tree.take() else { return "bad-op".into() };
                    if let Err(e) = rt.block_on(t.close()) {
                        return en(&e);
                    }
                    match TreeBuilder::with_options(mk(dir.path(), index, auto_compact, &mut clk)).build() {
                        Ok(t) => {
                            tree = Some(t);
                            "ok".into()
                        }
                        Err(e) => en(&e),
                    }
                }
                _ => "bad-op".into(),
            }
        }));
        let res = res.unwrap_or_else(|p| {
            let msg = p.downcast_ref::<String>().cloned().or_else(|| p.downcast_ref::<&str>().map(|s| s.to_string())).unwrap_or_default();
            format!("PANIC:{}", msg.replace(' ', "_").chars().take(80).collect::<String>())
        });
        writeln!(out, "{res}").unwrap();
    }
    if let Some(t) = tree.take() {
        let _ = rt.block_on(t.close());
    }
    out.flush().unwrap();
    0
}
