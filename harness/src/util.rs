use std::collections::BTreeMap;

pub fn hex(b: &[u8]) -> String {
    if b.is_empty() {
        return "-".to_string();
    }
    let mut s = String::with_capacity(b.len() * 2);
    for x in b {
        s.push_str(&format!("{:02x}", x));
    }
    s
}
pub fn unhex(s: &str) -> Vec<u8> {
    if s == "-" {
        return vec![];
    }
    (0..s.len() / 2).map(|i| u8::from_str_radix(&s[2 * i..2 * i + 2], 16).expect("hex")).collect()
}
pub fn opt_hex(v: &Option<Vec<u8>>) -> String {
    match v {
        None => "none".to_string(),
        Some(v) => format!("some:{}", hex(v)),
    }
}
/// canonical error names of the line protocol
pub fn err_name(e: &surrealkv::Error) -> String {
    use surrealkv::Error as E;
    let n = match e {
        E::TransactionClosed => "Closed",
        E::TransactionReadOnly => "ReadOnly",
        E::TransactionWriteOnly => "WriteOnly",
        E::EmptyKey => "EmptyKey",
        E::TransactionWithoutSavepoint => "NoSavepoint",
        E::TransactionWriteConflict | E::TransactionRetry => "Pipeline",
        _ => return format!("Other({})", format!("{:?}", e).chars().take(60).collect::<String>().replace([' ', '\t', '\n'], "_")),
    };
    n.to_string()
}

/// Input-distribution histogram written into the evidence.
#[derive(Default)]
pub struct Stats {
    pub counters: BTreeMap<String, u64>,
}
impl Stats {
    pub fn bump(&mut self, k: &str) {
        *self.counters.entry(k.to_string()).or_insert(0) += 1;
    }
    pub fn add(&mut self, k: &str, n: u64) {
        *self.counters.entry(k.to_string()).or_insert(0) += n;
    }
    pub fn to_json(&self) -> String {
        let mut s = String::from("{");
        let mut first = true;
        for (k, v) in &self.counters {
            if !first {
                s.push(',');
            }
            first = false;
            s.push_str(&format!("\"{}\":{}", k, v));
        }
        s.push('}');
        s
    }
}

/// value token of the operation files: hex, or `Z<len>.<hex tag>` = the tag followed by filler bytes `z`
pub fn tok_val(tok: &str) -> Vec<u8> {
    if let Some(rest) = tok.strip_prefix('Z') {
        let (n, tag) = rest.split_once('.').expect("Z token");
        let mut v = unhex(tag);
        v.resize(n.parse::<usize>().expect("Z len").max(v.len()), b'z');
        v
    } else {
        unhex(tok)
    }
}

/// rendering of a value in scan outputs: long values as `L<len>.<hex of the first 16 bytes>`
pub fn render_val(v: &[u8]) -> String {
    if v.len() <= 1200 {
        hex(v)
    } else {
        format!("L{}.{}", v.len(), hex(&v[..16]))
    }
}
