//! C16 (table files): every generated table file is altered — one bit per byte (quick) or every bit
//! (thorough), byte overwrites and truncations — reopened with the real reader and queried (every
//! stored key at the newest snapshot, an absent key, a complete forward and a complete backward
//! scan); the outcome must be the original answers or an error, never other data or a panic.
use crate::c13::{key_pool, value};
use crate::rng::Rng;
use crate::util::*;
use crate::Args;
use std::io::Write;
use std::ops::Bound;
use surrealkv::verif::sstable as vs;

const MAX_SEQ: u64 = (1 << 56) - 1;

fn regions_str(t: &vs::Tbl) -> String {
    match t.regions() {
        Err(e) => format!("err:{}", e.replace(' ', "_")),
        Ok(rs) => rs.iter().map(|(k, o, l)| format!("{k}:{o}:{l}")).collect::<Vec<_>>().join(","),
    }
}

pub fn gen(a: &Args) -> i32 {
    let mut out = std::io::BufWriter::new(std::fs::File::create(&a.out).expect("out"));
    let mut st = Stats::default();
    for case in 0..a.cases {
        let mut r = Rng::for_case(a.seed, case);
        let bs = *r.pick(&[64usize, 128, 256, 4096]);
        let ri = *r.pick(&[1usize, 3, 16]);
        let ps = *r.pick(&[20usize, 64, 16384]);
        let snappy = r.chance(1, 3);
        let filter = r.chance(2, 3);
        writeln!(out, "case {case} {bs} {ri} {ps} {} {}", snappy as u8, filter as u8).unwrap();
        st.bump(if snappy { "snappy" } else { "nocompress" });
        st.bump(if filter { "filter_on" } else { "filter_off" });
        let pool = key_pool(&mut r);
        let nk = r.range(2, 8) as usize;
        let mut idx: Vec<usize> = (0..pool.len()).collect();
        for i in (1..idx.len()).rev() {
            idx.swap(i, r.below(i as u64 + 1) as usize);
        }
        let mut chosen: Vec<usize> = idx[..nk].to_vec();
        chosen.sort();
        let mut ents: Vec<vs::Ent> = vec![];
        let mut tag = 0;
        for &ki in &chosen {
            let nv = r.range(1, 3);
            let mut seqs: Vec<u64> = (0..nv).map(|_| r.range(1, 40)).collect();
            seqs.sort_by(|x, y| y.cmp(x));
            seqs.dedup();
            for s in seqs {
                tag += 1;
                ents.push((pool[ki].clone(), s, 2, 0, value(&mut r, tag)));
            }
        }
        for e in &ents {
            writeln!(out, "ent {} {} {} {}", hex(&e.0), e.1, e.2, hex(&e.4)).unwrap();
        }
        let t = match vs::build(&ents, (bs, ri, ps, snappy, filter)) {
            Ok(t) => t,
            Err(e) => {
                writeln!(out, "regions err:{}", e.replace(' ', "_")).unwrap();
                continue;
            }
        };
        let n = t.bytes.len();
        writeln!(out, "regions {n} {}", regions_str(&t)).unwrap();
        st.add("file_bytes", n as u64);
        // alterations
        let meta: std::ops::Range<usize> = t
            .regions()
            .ok()
            .and_then(|rs| rs.iter().find(|x| x.0 == "metaindex").map(|x| x.1..x.1 + x.2))
            .unwrap_or(0..0);
        let all_bits = a.thorough;
        let offs: Vec<usize> = if n <= 4000 || a.thorough {
            (0..n).collect()
        } else {
            let mut v: Vec<usize> = (0..2500).map(|_| r.below(n as u64) as usize).collect();
            v.extend(n - 60..n); // always the whole footer
            v.sort();
            v.dedup();
            v
        };
        for o in offs {
            if all_bits {
                for b in 0..8 {
                    writeln!(out, "flip {o} {b}").unwrap();
                    st.bump("flip");
                }
            } else {
                writeln!(out, "flip {o} {}", r.below(8)).unwrap();
                st.bump("flip");
            }
            // byte overwrites avoid the meta index block: it holds the creation time, so its bytes differ from run to run
            if r.chance(1, 25) && !meta.contains(&o) {
                writeln!(out, "setb {o} {} {}", *r.pick(&[0u8, 0xff, 0x80, 1]), t.bytes[o]).unwrap();
                st.bump("setb");
            }
        }
        for _ in 0..12 {
            writeln!(out, "trunc {}", r.below(n as u64)).unwrap();
            st.bump("trunc");
        }
    }
    if !a.stats.is_empty() {
        std::fs::write(&a.stats, st.to_json()).unwrap();
    }
    0
}

type Answers = (Vec<String>, Vec<String>, Vec<String>);

/// all queries on one opened table; Err = some call returned an error
fn query(t: &vs::Tbl, keys: &[Vec<u8>], limit: usize) -> Result<Answers, String> {
    let mut gets = vec![];
    for k in keys {
        gets.push(match t.get(k, MAX_SEQ)? {
            None => "none".to_string(),
            Some((uk, s, _, v)) => format!("{} {} {}", hex(&uk), s, hex(&v)),
        });
    }
    let mut fwd = vec![];
    let mut c = t.cursor(Bound::Unbounded, Bound::Unbounded)?;
    let mut p = c.seek_first()?;
    while let Some((k, s, v)) = p {
        fwd.push(format!("{} {} {}", hex(&k), s, hex(&v)));
        if fwd.len() > limit {
            return Ok((gets, fwd, vec!["runaway".into()]));
        }
        p = c.next()?;
    }
    let mut bwd = vec![];
    let mut c = t.cursor(Bound::Unbounded, Bound::Unbounded)?;
    let mut p = c.seek_last()?;
    while let Some((k, s, v)) = p {
        bwd.push(format!("{} {} {}", hex(&k), s, hex(&v)));
        if bwd.len() > limit {
            return Ok((gets, fwd, vec!["runaway".into()]));
        }
        p = c.prev()?;
    }
    Ok((gets, fwd, bwd))
}

fn first_diff(a: &Answers, b: &Answers) -> String {
    if a.0 != b.0 {
        let i = a.0.iter().zip(b.0.iter()).position(|(x, y)| x != y).unwrap_or(0);
        return format!("get#{i}:{}->{}", a.0.get(i).cloned().unwrap_or_default().replace(' ', "_"), b.0.get(i).cloned().unwrap_or_default().replace(' ', "_"));
    }
    if a.1 != b.1 {
        return format!("forward-scan:{}->{}", a.1.len(), b.1.len());
    }
    format!("backward-scan:{}->{}", a.2.len(), b.2.len())
}

pub fn exec(a: &Args) -> i32 {
    let text = std::fs::read_to_string(&a.ops).expect("ops");
    let mut out = std::io::BufWriter::new(std::fs::File::create(&a.out).expect("out"));
    let mut cfg: vs::Cfg = (4096, 16, 16384, false, false);
    let mut ents: Vec<vs::Ent> = vec![];
    let mut orig: Option<(Vec<u8>, Vec<Vec<u8>>, Answers)> = None;
    let dir = tempfile::tempdir().expect("tempdir");
    let path = dir.path().join("t.sst");
    // quiet panics: thousands are expected while a defect is live
    std::panic::set_hook(Box::new(|_| {}));
    for line in text.lines() {
        let w: Vec<&str> = line.split_whitespace().collect();
        let res = std::panic::catch_unwind(std::panic::AssertUnwindSafe(|| -> String {
            match w.first().copied() {
                Some("case") => {
                    let n = |i: usize| w.get(i).and_then(|s| s.parse::<usize>().ok()).unwrap_or(0);
                    cfg = (n(2), n(3), n(4), n(5) == 1, n(6) == 1);
                    ents.clear();
                    orig = None;
                    "-".into()
                }
                Some("ent") => {
                    ents.push((unhex(w[1]), w[2].parse().unwrap_or(0), w[3].parse().unwrap_or(2), 0, unhex(w[4])));
                    "-".into()
                }
                Some("regions") => match vs::build(&ents, cfg) {
                    Ok(t) => {
                        let mut keys: Vec<Vec<u8>> = ents.iter().map(|e| e.0.clone()).collect();
                        keys.dedup();
                        keys.push(b"zz-absent".to_vec());
                        keys.push(vec![0x01]);
                        let ans = match query(&t, &keys, ents.len() + 5) {
                            Ok(a) => a,
                            Err(e) => return format!("err:baseline:{}", e.replace(' ', "_")),
                        };
                        let s = format!("{} {}", t.bytes.len(), regions_str(&t));
                        orig = Some(((*t.bytes).clone(), keys, ans));
                        s
                    }
                    Err(e) => format!("err:{}", e.replace(' ', "_")),
                },
                Some(op @ ("flip" | "setb" | "trunc")) => {
                    let Some((bytes, keys, ans)) = orig.as_ref() else { return "bad-op".into() };
                    let mut b = bytes.clone();
                    let o: usize = w[1].parse().unwrap_or(0);
                    match op {
                        "flip" => {
                            if o >= b.len() {
                                return "bad-op".into();
                            }
                            b[o] ^= 1 << w[2].parse::<u8>().unwrap_or(0);
                        }
                        "setb" => {
                            if o >= b.len() {
                                return "bad-op".into();
                            }
                            let v: u8 = w[2].parse().unwrap_or(0);
                            if b[o] == v {
                                return "same".into();
                            }
                            b[o] = v;
                        }
                        _ => b.truncate(o),
                    }
                    // through a real file, as the store reads tables (the in-memory vfs has other failure modes)
                    std::fs::write(&path, &b).expect("write table file");
                    let t = match vs::open_path(&path, cfg) {
                        Ok(t) => t,
                        Err(_) => return "err-open".into(),
                    };
                    match query(&t, keys, ents.len() + 5) {
                        Err(_) => "err-read".into(),
                        Ok(a2) => {
                            if &a2 == ans {
                                "same".into()
                            } else {
                                format!("DIFFERENT:{}", first_diff(ans, &a2))
                            }
                        }
                    }
                }
                _ => "bad-op".into(),
            }
        }));
        let res = res.unwrap_or_else(|p| {
            let msg = p.downcast_ref::<String>().cloned().or_else(|| p.downcast_ref::<&str>().map(|s| s.to_string())).unwrap_or_default();
            format!("PANIC:{}", msg.replace(' ', "_").chars().take(70).collect::<String>())
        });
        writeln!(out, "{res}").unwrap();
    }
    out.flush().unwrap();
    0
}
