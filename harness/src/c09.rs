//! C09 — range cursors: key sets spread over the write set, memtables and tables on several levels
//! (many versions and tombstones per key), bounds present / absent, cursor programs with direction
//! reversals at every position, against the real `Transaction::range_with_options` cursor.
use crate::rng::Rng;
use crate::util::*;
use crate::Args;
use std::collections::BTreeMap;
use std::io::Write;
use surrealkv::verif::store as vs;
use surrealkv::{LSMIterator, Options, ReadOptions, Transaction, Tree, TreeBuilder};

/// byte keys in ascending order; ops use their indices
const KEYTAB: &[&[u8]] = &[b"a", b"a\x00", b"ab", b"abc", b"b", b"b\xff", b"c", b"ca", b"d", b"\xfe", b"\xff", b"\xff\x00"];

struct Sim {
    committed: BTreeMap<u64, u64>,
    snapshot: BTreeMap<u64, u64>,
    ws: BTreeMap<u64, Option<u64>>,
    live: Vec<u64>,
    pos: Option<usize>,
}

pub fn gen(a: &Args) -> i32 {
    let mut out = std::io::BufWriter::new(std::fs::File::create(&a.out).expect("out"));
    let mut st = Stats::default();
    for case in 0..a.cases {
        let mut r = Rng::for_case(a.seed, case);
        let levels = r.range(1, 3);
        let l0max = r.range(1, 2);
        let blk = *r.pick(&[64u64, 128, 4096]);
        writeln!(out, "case {case} {levels} {l0max} {blk}").unwrap();
        let nk = r.range(3, KEYTAB.len() as u64);
        let mut sim = Sim { committed: BTreeMap::new(), snapshot: BTreeMap::new(), ws: BTreeMap::new(), live: vec![], pos: None };
        let mut vctr = 0u64;
        // committed layout with versions, tombstones and placements
        let nlay = r.range(3, 24);
        for _ in 0..nlay {
            let x = r.below(100);
            if x < 55 {
                let k = r.below(nk);
                vctr += 1;
                writeln!(out, "put {k} {vctr}").unwrap();
                sim.committed.insert(k, vctr);
            } else if x < 70 {
                let k = r.below(nk);
                writeln!(out, "del {k}").unwrap();
                sim.committed.remove(&k);
            } else if x < 80 {
                writeln!(out, "rotate").unwrap();
            } else if x < 92 {
                writeln!(out, "flush").unwrap();
            } else {
                writeln!(out, "compact").unwrap();
            }
        }
        writeln!(out, "begin").unwrap();
        sim.snapshot = sim.committed.clone();
        // later commits and placements must stay invisible
        for _ in 0..r.below(4) {
            let x = r.below(10);
            if x < 5 {
                let k = r.below(nk);
                vctr += 1;
                writeln!(out, "put {k} {vctr}").unwrap();
            } else if x < 7 {
                writeln!(out, "del {}", r.below(nk)).unwrap();
            } else if x < 9 {
                writeln!(out, "flush").unwrap();
            } else {
                writeln!(out, "compact").unwrap();
            }
        }
        // write set
        for _ in 0..r.below(6) {
            let k = r.below(nk);
            if r.chance(2, 3) {
                vctr += 1;
                writeln!(out, "ws {k} {vctr}").unwrap();
                sim.ws.insert(k, Some(vctr));
            } else {
                writeln!(out, "wsdel {k}").unwrap();
                sim.ws.insert(k, None);
            }
        }
        let ncur = r.range(1, 3);
        let mut reversals = 0;
        for _ in 0..ncur {
            // bounds: both present, either absent, empty or inverted
            let (lo, hi): (Option<u64>, Option<u64>) = match r.below(8) {
                0 => (None, None),
                1 => (None, Some(r.below(nk + 1))),
                2 => (Some(r.below(nk)), None),
                3 => {
                    let x = r.below(nk);
                    (Some(x), Some(x))
                }
                4 => {
                    let x = r.range(1, nk);
                    (Some(x), Some(r.below(x)))
                }
                _ => {
                    let x = r.below(nk);
                    (Some(x), Some(r.range(x, nk)))
                }
            };
            st.bump(match (lo, hi) {
                (None, None) => "bounds_none",
                (None, _) => "bounds_no_lower",
                (_, None) => "bounds_no_upper",
                (Some(l), Some(h)) if l >= h => "bounds_empty_or_inverted",
                _ => "bounds_both",
            });
            let f = |b: Option<u64>| b.map(|x| x.to_string()).unwrap_or("-".into());
            writeln!(out, "cursor {} {}", f(lo), f(hi)).unwrap();
            let inb = |k: u64| lo.map_or(true, |l| l <= k) && hi.map_or(true, |h| k < h);
            let mut live: Vec<u64> = vec![];
            for (k, _) in sim.snapshot.iter() {
                if !sim.ws.contains_key(k) && inb(*k) {
                    live.push(*k);
                }
            }
            for (k, v) in sim.ws.iter() {
                if v.is_some() && inb(*k) {
                    live.push(*k);
                }
            }
            live.sort();
            sim.live = live;
            sim.pos = None;
            let nprog = r.range(2, if a.thorough { 40 } else { 14 });
            let mut last_dir: i32 = 0;
            for step in 0..nprog {
                let can_move = sim.pos.is_some();
                let x = if step == 0 || !can_move { r.below(30) } else { r.below(100) };
                if x < 10 {
                    writeln!(out, "first").unwrap();
                    sim.pos = if sim.live.is_empty() { None } else { Some(0) };
                    last_dir = 1;
                } else if x < 20 {
                    writeln!(out, "last").unwrap();
                    sim.pos = if sim.live.is_empty() { None } else { Some(sim.live.len() - 1) };
                    last_dir = -1;
                } else if x < 30 {
                    // target inside the bounds
                    let l = lo.unwrap_or(0);
                    let h = hi.unwrap_or(nk);
                    if l < h {
                        let t = r.range(l, h - 1);
                        writeln!(out, "seek {t}").unwrap();
                        let i = sim.live.iter().take_while(|k| **k < t).count();
                        sim.pos = if i < sim.live.len() { Some(i) } else { None };
                        last_dir = 1;
                    } else {
                        writeln!(out, "first").unwrap();
                        sim.pos = if sim.live.is_empty() { None } else { Some(0) };
                        last_dir = 1;
                    }
                } else if x < 65 {
                    writeln!(out, "next").unwrap();
                    let i = sim.pos.unwrap();
                    sim.pos = if i + 1 < sim.live.len() { Some(i + 1) } else { None };
                    if last_dir == -1 {
                        reversals += 1;
                    }
                    last_dir = 1;
                } else {
                    writeln!(out, "prev").unwrap();
                    let i = sim.pos.unwrap();
                    sim.pos = if i > 0 { Some(i - 1) } else { None };
                    if last_dir == 1 {
                        reversals += 1;
                    }
                    last_dir = -1;
                }
                st.bump("cursor_ops");
            }
        }
        st.add("reversals", reversals);
        if reversals > 0 && !sim.ws.is_empty() {
            st.bump("nontrivial_cases");
        }
    }
    out.flush().unwrap();
    if !a.stats.is_empty() {
        std::fs::write(&a.stats, st.to_json()).unwrap();
    }
    0
}

fn key_id(k: &[u8]) -> String {
    match KEYTAB.iter().position(|x| *x == k) {
        Some(i) => i.to_string(),
        None => format!("?{}", hex(k)),
    }
}

type Cursor = Box<dyn LSMIterator + 'static>;

struct Case {
    _dir: tempfile::TempDir,
    tree: Tree,
    txn: Option<*mut Transaction>,
    cur: Option<Cursor>,
}

impl Case {
    fn drop_txn(&mut self) {
        self.cur = None;
        if let Some(p) = self.txn.take() {
            // SAFETY: the only borrower (the cursor) was dropped above
            unsafe { drop(Box::from_raw(p)) };
        }
    }
}

fn report(it: &Cursor) -> String {
    if !it.valid() {
        return "inv".into();
    }
    let k = it.key().user_key().to_vec();
    match it.value() {
        Ok(v) => format!("{}={}", key_id(&k), String::from_utf8_lossy(&v)),
        Err(e) => format!("err:{}", err_name(&e)),
    }
}

pub fn exec(a: &Args) -> i32 {
    let rt = tokio::runtime::Builder::new_multi_thread().worker_threads(2).enable_all().build().unwrap();
    let _g = rt.enter();
    let text = std::fs::read_to_string(&a.ops).expect("ops");
    let mut out = std::io::BufWriter::new(std::fs::File::create(&a.out).expect("out"));
    let mut cs: Option<Case> = None;
    for line in text.lines() {
        let w: Vec<&str> = line.split_whitespace().collect();
        let res = std::panic::catch_unwind(std::panic::AssertUnwindSafe(|| -> String {
            match w.first().copied() {
                Some("case") => {
                    if let Some(mut c) = cs.take() {
                        c.drop_txn();
                        let _ = rt.block_on(c.tree.close());
                    }
                    let dir = tempfile::tempdir().expect("tempdir");
                    let mut opts = Options::new();
                    opts.path = dir.path().to_path_buf();
                    opts.level_count = w[2].parse().unwrap();
                    opts.level0_max_files = w[3].parse().unwrap();
                    opts.block_size = w[4].parse().unwrap();
                    opts.index_partition_size = 64;
                    opts.l0_stall_threshold = 1000;
                    opts.memtable_stall_threshold = 1000;
                    opts.max_bytes_for_level = 1;
                    let tree = TreeBuilder::with_options(opts).build().expect("build");
                    cs = Some(Case { _dir: dir, tree, txn: None, cur: None });
                    "-".into()
                }
                Some("put") | Some("del") => {
                    let c = cs.as_mut().unwrap();
                    let mut t = c.tree.begin().expect("begin");
                    let k = KEYTAB[w[1].parse::<usize>().unwrap()];
                    let r = if w[0] == "put" { t.set(k, w[2].as_bytes()) } else { t.delete(k) };
                    if let Err(e) = r {
                        return format!("err:{}", err_name(&e));
                    }
                    match rt.block_on(t.commit()) {
                        Ok(()) => "ok".into(),
                        Err(e) => format!("err:{}", err_name(&e)),
                    }
                }
                Some("rotate") => vs::rotate(&cs.as_ref().unwrap().tree).map(|_| "ok".to_string()).unwrap_or_else(|e| format!("err:{e}")),
                Some("flush") => {
                    let t = &cs.as_ref().unwrap().tree;
                    vs::rotate(t).and_then(|_| vs::flush_immutables(t)).map(|_| "ok".to_string()).unwrap_or_else(|e| format!("err:{e}"))
                }
                Some("compact") => vs::compact_round(&cs.as_ref().unwrap().tree).map(|_| "ok".to_string()).unwrap_or_else(|e| format!("err:{e}")),
                Some("begin") => {
                    let c = cs.as_mut().unwrap();
                    c.drop_txn();
                    let t = c.tree.begin().expect("begin");
                    c.txn = Some(Box::into_raw(Box::new(t)));
                    "ok".into()
                }
                Some("ws") | Some("wsdel") => {
                    let c = cs.as_mut().unwrap();
                    c.cur = None;
                    let t: &mut Transaction = unsafe { &mut *c.txn.expect("txn") };
                    let k = KEYTAB[w[1].parse::<usize>().unwrap()];
                    let r = if w[0] == "ws" { t.set(k, w[2].as_bytes()) } else { t.delete(k) };
                    match r {
                        Ok(()) => "ok".into(),
                        Err(e) => format!("err:{}", err_name(&e)),
                    }
                }
                Some("cursor") => {
                    let c = cs.as_mut().unwrap();
                    c.cur = None;
                    let t: &'static Transaction = unsafe { &*c.txn.expect("txn") };
                    let mut ro = ReadOptions::new();
                    let b = |s: &str| if s == "-" { None } else { Some(KEYTAB.get(s.parse::<usize>().unwrap()).map(|k| k.to_vec()).unwrap_or(vec![0xff, 0xff, 0xff])) };
                    ro.set_iterate_lower_bound(b(w[1]));
                    ro.set_iterate_upper_bound(b(w[2]));
                    match t.range_with_options(&ro) {
                        Ok(it) => {
                            c.cur = Some(Box::new(it));
                            "ok".into()
                        }
                        Err(e) => format!("err:{}", err_name(&e)),
                    }
                }
                Some(op @ ("first" | "last" | "seek" | "next" | "prev")) => {
                    let c = cs.as_mut().unwrap();
                    let it = c.cur.as_mut().expect("cursor");
                    let r = match op {
                        "first" => it.seek_first(),
                        "last" => it.seek_last(),
                        "seek" => it.seek(KEYTAB[w[1].parse::<usize>().unwrap()]),
                        "next" => it.next(),
                        _ => it.prev(),
                    };
                    match r {
                        Ok(_) => report(it),
                        Err(e) => format!("err:{}", err_name(&e)),
                    }
                }
                _ => "bad-op".into(),
            }
        }));
        match res {
            Ok(s) => writeln!(out, "{s}").unwrap(),
            Err(_) => writeln!(out, "PANIC").unwrap(),
        }
    }
    out.flush().unwrap();
    if let Some(mut c) = cs.take() {
        c.drop_txn();
        let _ = rt.block_on(c.tree.close());
    }
    0
}
