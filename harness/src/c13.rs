//! C13: sorted tables.  Entry sets are written with the real `TableWriter` under a grid of format
//! options; the physical layout the writer produced is dumped into the op file (so the Lean model
//! runs its two-level algorithms over the real structure after checking it is well-formed) and every
//! point lookup, bounded cursor walk, filter probe and key-range shortcut is executed on the real
//! reader.
use crate::rng::Rng;
use crate::util::*;
use crate::Args;
use std::io::Write;
use std::ops::Bound;
use surrealkv::verif::sstable as vs;

const MAX_SEQ: u64 = (1 << 56) - 1;

pub fn key_pool(r: &mut Rng) -> Vec<Vec<u8>> {
    let mut pool: Vec<Vec<u8>> = vec![
        vec![0x00],
        vec![0x00, 0x00],
        vec![0x61],
        vec![0x61, 0x00],
        vec![0x61, 0x61],
        vec![0x61, 0xff],
        vec![0x61, 0xff, 0xff],
        vec![0x62],
        vec![0x7f, 0xff],
        vec![0x80],
        vec![0xfe, 0xff],
        vec![0xff],
        vec![0xff, 0x00],
        vec![0xff, 0xff],
        vec![0xff, 0xff, 0xff],
    ];
    // long shared prefixes
    // (one case in three: longer than 127 bytes, so that the shared-prefix length of a block entry needs a two-byte varint)
    let plen = if r.chance(1, 3) { r.range(130, 300) } else { r.range(8, 60) };
    let prefix: Vec<u8> = (0..plen).map(|i| b'a' + (i % 7) as u8).collect();
    for i in 0..12u8 {
        let mut k = prefix.clone();
        k.extend_from_slice(format!("/{:04}", i as u32 * 7).as_bytes());
        if i % 4 == 3 {
            k.push(0xff);
        }
        pool.push(k);
    }
    pool.sort();
    pool.dedup();
    pool
}

pub fn value(r: &mut Rng, tag: u64) -> Vec<u8> {
    match r.below(10) {
        0 => vec![],
        1..=5 => format!("v{tag}").into_bytes(),
        6 | 7 => {
            let mut v = format!("long{tag}-").into_bytes();
            v.resize(r.range(60, 400) as usize, b'x');
            v
        }
        _ => {
            // pointer-shaped bytes (opaque to the table)
            let mut v = vec![1u8];
            v.extend_from_slice(&(tag as u32).to_be_bytes());
            v.extend_from_slice(&[0u8; 20]);
            v
        }
    }
}

fn bound_str(b: &Option<(bool, Vec<u8>)>) -> String {
    match b {
        None => "-".into(),
        Some((true, k)) => format!("i:{}", hex(k)),
        Some((false, k)) => format!("e:{}", hex(k)),
    }
}

fn layout_str(t: &vs::Tbl) -> String {
    match t.layout() {
        Err(e) => format!("err:{}", e.replace(' ', "_")),
        Ok(parts) => parts
            .iter()
            .map(|p| {
                p.iter()
                    .map(|(sep, ents, rs)| format!("{}:{}:{}:{}", hex(&sep.0), sep.1, ents.len(), rs.iter().map(|x| x.to_string()).collect::<Vec<_>>().join(".")))
                    .collect::<Vec<_>>()
                    .join(";")
            })
            .collect::<Vec<_>>()
            .join("/"),
    }
}

pub fn gen(a: &Args) -> i32 {
    let mut out = std::io::BufWriter::new(std::fs::File::create(&a.out).expect("out"));
    let mut st = Stats::default();
    for case in 0..a.cases {
        let mut r = Rng::for_case(a.seed, case);
        let bs = *r.pick(&[32usize, 64, 96, 128, 256, 1024, 4096]);
        let ri = *r.pick(&[1usize, 2, 3, 4, 16]);
        let ps = *r.pick(&[20usize, 64, 256, 16384]);
        let snappy = r.chance(1, 3);
        let filter = r.chance(1, 2);
        writeln!(out, "case {case} {bs} {ri} {ps} {} {}", snappy as u8, filter as u8).unwrap();
        st.bump(&format!("block_{bs}"));
        st.bump(&format!("restart_{ri}"));
        st.bump(&format!("part_{ps}"));
        st.bump(if snappy { "snappy" } else { "nocompress" });
        st.bump(if filter { "filter_on" } else { "filter_off" });
        let pool = key_pool(&mut r);
        let nk = r.range(1, if a.thorough { 24 } else { 12 }) as usize;
        let mut idx: Vec<usize> = (0..pool.len()).collect();
        for i in (1..idx.len()).rev() {
            idx.swap(i, r.below(i as u64 + 1) as usize);
        }
        let mut chosen: Vec<usize> = idx[..nk.min(idx.len())].to_vec();
        chosen.sort();
        let mut ents: Vec<vs::Ent> = vec![];
        let mut tag = 0u64;
        for &ki in &chosen {
            let nv = if r.chance(1, 4) { r.range(4, 14) } else { r.range(1, 3) };
            let mut seqs: Vec<u64> = vec![];
            for _ in 0..nv {
                let s = match r.below(12) {
                    0 => 0,
                    1 => MAX_SEQ - r.below(2),
                    2 => r.range(250, 260),
                    _ => r.range(1, 60),
                };
                if !seqs.contains(&s) {
                    seqs.push(s);
                }
            }
            seqs.sort_by(|x, y| y.cmp(x));
            for s in seqs {
                tag += 1;
                let kind = *r.pick(&[2u8, 2, 2, 0, 1, 6]);
                ents.push((pool[ki].clone(), s, kind, 0, value(&mut r, tag)));
            }
        }
        st.add("entries", ents.len() as u64);
        if ents.iter().any(|e| e.1 == 0) {
            st.bump("cases_with_seq0");
        }
        for e in &ents {
            writeln!(out, "ent {} {} {} {}", hex(&e.0), e.1, e.2, hex(&e.4)).unwrap();
        }
        let cfg = (bs, ri, ps, snappy, filter);
        let t = match vs::build(&ents, cfg) {
            Ok(t) => t,
            Err(e) => {
                writeln!(out, "layout err:{}", e.replace(' ', "_")).unwrap();
                continue;
            }
        };
        let ls = layout_str(&t);
        let nblocks = ls.matches(':').count() / 3;
        st.add("blocks", nblocks as u64);
        if ls.contains('/') {
            st.bump("cases_multi_partition");
        }
        if nblocks > 1 {
            st.bump("cases_multi_block");
        }
        writeln!(out, "layout {ls}").unwrap();
        // lookup targets: every stored key and neighbours of the pool around the stored ones
        let targets: Vec<Vec<u8>> = pool.clone();
        for k in &targets {
            let present = chosen.iter().any(|&c| &pool[c] == k);
            if present || r.chance(1, 2) {
                let seqs: Vec<u64> = ents.iter().filter(|e| &e.0 == k).map(|e| e.1).collect();
                let mut probe: Vec<u64> = vec![MAX_SEQ, 0];
                for s in &seqs {
                    probe.push(*s);
                    probe.push(s.saturating_sub(1));
                    probe.push((*s + 1).min(MAX_SEQ));
                }
                probe.sort();
                probe.dedup();
                for p in probe {
                    if present || r.chance(1, 3) {
                        writeln!(out, "get {} {}", hex(k), p).unwrap();
                        st.bump(if present { "get_present_key" } else { "get_absent_key" });
                    }
                }
                writeln!(out, "mc {}", hex(k)).unwrap();
            }
        }
        // cursors
        let ncur = r.range(2, if a.thorough { 8 } else { 5 });
        for _ in 0..ncur {
            let mk = |r: &mut Rng| -> Option<(bool, Vec<u8>)> {
                if r.chance(1, 4) {
                    None
                } else {
                    Some((r.chance(1, 2), r.pick(&pool).clone()))
                }
            };
            let lo = mk(&mut r);
            let hi = mk(&mut r);
            writeln!(out, "range {} {}", bound_str(&lo), bound_str(&hi)).unwrap();
            writeln!(out, "cur {} {}", bound_str(&lo), bound_str(&hi)).unwrap();
            st.bump(&format!("cur_{}_{}", lo.as_ref().map(|b| if b.0 { "incl" } else { "excl" }).unwrap_or("unb"), hi.as_ref().map(|b| if b.0 { "incl" } else { "excl" }).unwrap_or("unb")));
            let nsteps = r.range(4, if a.thorough { 60 } else { 30 });
            // complete forward and backward passes now and then
            let full = r.below(4);
            if full == 0 {
                writeln!(out, "first").unwrap();
                for _ in 0..ents.len() + 1 {
                    writeln!(out, "next").unwrap();
                }
                st.bump("full_forward");
            } else if full == 1 {
                writeln!(out, "last").unwrap();
                for _ in 0..ents.len() + 1 {
                    writeln!(out, "prev").unwrap();
                }
                st.bump("full_backward");
            }
            for _ in 0..nsteps {
                match r.below(10) {
                    0 => writeln!(out, "first").unwrap(),
                    1 => writeln!(out, "last").unwrap(),
                    2..=4 => writeln!(out, "next").unwrap(),
                    5..=7 => writeln!(out, "prev").unwrap(),
                    _ => {
                        // seek target inside the lower bound (seeks below it are not part of the contract)
                        let cands: Vec<&Vec<u8>> = pool
                            .iter()
                            .filter(|k| match &lo {
                                None => true,
                                Some((true, b)) => *k >= b,
                                Some((false, b)) => *k > b,
                            })
                            .collect();
                        if cands.is_empty() {
                            writeln!(out, "first").unwrap();
                        } else {
                            let k = *r.pick(&cands);
                            let s = match r.below(4) {
                                0 => MAX_SEQ,
                                1 => 0,
                                _ => r.range(0, 60),
                            };
                            writeln!(out, "seek {} {}", hex(k), s).unwrap();
                            st.bump("seek");
                        }
                    }
                }
            }
        }
    }
    if !a.stats.is_empty() {
        std::fs::write(&a.stats, st.to_json()).unwrap();
    }
    0
}

fn parse_bound(s: &str) -> Option<(bool, Vec<u8>)> {
    if s == "-" {
        None
    } else if let Some(h) = s.strip_prefix("i:") {
        Some((true, unhex(h)))
    } else {
        s.strip_prefix("e:").map(|h| (false, unhex(h)))
    }
}

fn to_bound(b: &Option<(bool, Vec<u8>)>) -> Bound<&[u8]> {
    match b {
        None => Bound::Unbounded,
        Some((true, k)) => Bound::Included(k.as_slice()),
        Some((false, k)) => Bound::Excluded(k.as_slice()),
    }
}

fn show_pos(r: Result<Option<(Vec<u8>, u64, Vec<u8>)>, String>) -> String {
    match r {
        Ok(None) => "invalid".into(),
        Ok(Some((k, s, v))) => format!("{} {} {}", hex(&k), s, hex(&v)),
        Err(e) => format!("err:{}", e.replace(' ', "_").chars().take(80).collect::<String>()),
    }
}

pub fn exec(a: &Args) -> i32 {
    let text = std::fs::read_to_string(&a.ops).expect("ops");
    let mut out = std::io::BufWriter::new(std::fs::File::create(&a.out).expect("out"));
    let mut cfg: vs::Cfg = (4096, 16, 16384, false, false);
    let mut ents: Vec<vs::Ent> = vec![];
    let mut tbl: Option<vs::Tbl> = None;
    let mut cur: Option<vs::Cur> = None;
    for line in text.lines() {
        let w: Vec<&str> = line.split_whitespace().collect();
        let res = std::panic::catch_unwind(std::panic::AssertUnwindSafe(|| -> String {
            match w.first().copied() {
                Some("case") => {
                    let n = |i: usize| w.get(i).and_then(|s| s.parse::<usize>().ok()).unwrap_or(0);
                    cfg = (n(2), n(3), n(4), n(5) == 1, n(6) == 1);
                    ents.clear();
                    cur = None; // cursors borrow the table: drop them first
                    tbl = None;
                    "-".into()
                }
                Some("ent") => {
                    if w.len() != 5 {
                        return "bad-op".into();
                    }
                    ents.push((unhex(w[1]), w[2].parse().unwrap_or(0), w[3].parse().unwrap_or(2), 0, unhex(w[4])));
                    "-".into()
                }
                Some("layout") => match vs::build(&ents, cfg) {
                    Ok(t) => {
                        cur = None;
                        let s = layout_str(&t);
                        tbl = Some(t);
                        s
                    }
                    Err(e) => format!("err:{}", e.replace(' ', "_")),
                },
                Some("get") => {
                    let Some(t) = tbl.as_ref() else { return "bad-op".into() };
                    match t.get(&unhex(w[1]), w[2].parse().unwrap_or(0)) {
                        Ok(None) => "none".into(),
                        Ok(Some((k, s, _kind, v))) => format!("some {} {} {}", hex(&k), s, hex(&v)),
                        Err(e) => format!("err:{}", e.replace(' ', "_")),
                    }
                }
                Some("mc") => {
                    let Some(t) = tbl.as_ref() else { return "bad-op".into() };
                    match t.may_contain(&unhex(w[1])) {
                        None => "mc=1".into(), // no filter: nothing is ever hidden
                        Some(b) => format!("mc={}", b as u8),
                    }
                }
                Some("range") => {
                    let Some(t) = tbl.as_ref() else { return "bad-op".into() };
                    let (lo, hi) = (parse_bound(w[1]), parse_bound(w[2]));
                    let (b, af, ov) = t.key_range_flags(to_bound(&lo), to_bound(&hi));
                    format!("before={} after={} overlaps={}", b as u8, af as u8, ov as u8)
                }
                Some("cur") => {
                    let Some(t) = tbl.as_ref() else { return "bad-op".into() };
                    let (lo, hi) = (parse_bound(w[1]), parse_bound(w[2]));
                    match t.cursor(to_bound(&lo), to_bound(&hi)) {
                        Ok(c) => {
                            cur = Some(c);
                            "ok".into()
                        }
                        Err(e) => format!("err:{}", e.replace(' ', "_")),
                    }
                }
                Some("first") => cur.as_mut().map(|c| show_pos(c.seek_first())).unwrap_or("bad-op".into()),
                Some("last") => cur.as_mut().map(|c| show_pos(c.seek_last())).unwrap_or("bad-op".into()),
                Some("next") => cur.as_mut().map(|c| show_pos(c.next())).unwrap_or("bad-op".into()),
                Some("prev") => cur.as_mut().map(|c| show_pos(c.prev())).unwrap_or("bad-op".into()),
                Some("seek") => {
                    let k = unhex(w[1]);
                    let s = w[2].parse().unwrap_or(0);
                    cur.as_mut().map(|c| show_pos(c.seek(&k, s))).unwrap_or("bad-op".into())
                }
                _ => "bad-op".into(),
            }
        }));
        let res = res.unwrap_or_else(|p| {
            cur = None;
            let msg = p.downcast_ref::<String>().cloned().or_else(|| p.downcast_ref::<&str>().map(|s| s.to_string())).unwrap_or_default();
            format!("PANIC:{}", msg.replace(' ', "_").chars().take(80).collect::<String>())
        });
        writeln!(out, "{res}").unwrap();
    }
    out.flush().unwrap();
    0
}
