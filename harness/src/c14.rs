//! C14: checkpoint and restore on a real store.  Histories before the checkpoint, between
//! checkpoint and restore (flushes / compactions that create new tables and value-log files), and
//! after the restore (commits, flush, compaction, reopen, overlapping writers, a reader spanning a
//! commit); small block cache, value log on or off; the checkpoint directory is also opened as a
//! database of its own.  One case in four runs with versioning and the B+tree version index: the
//! history of a key (`hist`, `ckhist`) is then part of the checkpointed state.
use crate::rng::Rng;
use crate::util::*;
use crate::Args;
use std::io::Write;
use surrealkv::verif::store as vs;
use surrealkv::{LSMIterator, Options, Tree, TreeBuilder};

const NK: u64 = 6;

pub fn gen(a: &Args) -> i32 {
    let mut out = std::io::BufWriter::new(std::fs::File::create(&a.out).expect("out"));
    let mut st = Stats::default();
    for case in 0..a.cases {
        let mut r = Rng::for_case(a.seed, case);
        // one case in four: versioning with the B+tree version index (history queries are part of the state)
        let vidx = r.chance(1, 4);
        let vlog = if vidx { 1 } else { r.chance(1, 2) as u8 };
        writeln!(out, "case {case} {vlog} {}", vidx as u8).unwrap();
        st.bump(if vidx { "versioned_index" } else if vlog == 1 { "vlog_on" } else { "vlog_off" });
        let mut vctr = 0u64;
        let mut have_ckpt = false;
        let phase_ops = |r: &mut Rng, out: &mut dyn Write, n: u64, vctr: &mut u64, st: &mut Stats| {
            for _ in 0..n {
                let x = r.below(100);
                if x < 55 {
                    let m = r.range(1, 3);
                    let mut ws = vec![];
                    let mut used = vec![];
                    for _ in 0..m {
                        let k = r.below(NK);
                        if vidx && used.contains(&k) {
                            continue; // one version per key and transaction
                        }
                        used.push(k);
                        if r.chance(1, 6) {
                            ws.push(format!("{k}=DEL"));
                        } else {
                            *vctr += 1;
                            // long values exercise the value log and several blocks
                            let len = if r.chance(1, 3) { r.range(200, 900) } else { r.range(1, 30) };
                            ws.push(format!("{k}={}:{len}", *vctr));
                        }
                    }
                    writeln!(out, "txn {}", ws.join(" ")).unwrap();
                    st.bump("txn");
                } else if x < 70 {
                    writeln!(out, "flush").unwrap();
                    st.bump("flush");
                } else if x < 78 {
                    if vidx {
                        // compaction under versioning: known finding of C10, kept out of this stream
                        writeln!(out, "hist {}", r.below(NK)).unwrap();
                        st.bump("hist");
                    } else {
                        writeln!(out, "compact").unwrap();
                        st.bump("compact");
                    }
                } else if x < 90 {
                    if vidx && r.chance(1, 2) {
                        writeln!(out, "hist {}", r.below(NK)).unwrap();
                        st.bump("hist");
                    } else {
                        writeln!(out, "get {}", r.below(NK)).unwrap();
                    }
                } else {
                    writeln!(out, "scan").unwrap();
                }
            }
        };
        // a burst of long values: enough to roll the value log over into new files, flushed and read back (file handles cached)
        let burst = |r: &mut Rng, out: &mut dyn Write, vctr: &mut u64, st: &mut Stats| {
            let mut ks = vec![];
            for _ in 0..r.range(2, 3) {
                let mut ws = vec![];
                for k in 0..NK {
                    if r.chance(2, 3) {
                        *vctr += 1;
                        ws.push(format!("{k}={}:{}", *vctr, r.range(500, 900)));
                        ks.push(k);
                    }
                }
                if !ws.is_empty() {
                    writeln!(out, "txn {}", ws.join(" ")).unwrap();
                }
                writeln!(out, "flush").unwrap();
            }
            for k in ks.iter().rev().take(4) {
                writeln!(out, "get {k}").unwrap();
            }
            st.bump("long_value_burst");
        };
        let n1 = r.range(3, 12);
        phase_ops(&mut r, &mut out, n1, &mut vctr, &mut st);
        let rounds = r.range(1, 2);
        for _ in 0..rounds {
            writeln!(out, "checkpoint").unwrap();
            have_ckpt = true;
            st.bump("checkpoint");
            let n2 = r.range(2, 12);
            phase_ops(&mut r, &mut out, n2, &mut vctr, &mut st);
            let bursts = vlog == 1 && r.chance(1, 2);
            if bursts {
                burst(&mut r, &mut out, &mut vctr, &mut st);
            }
            if r.chance(1, 3) {
                writeln!(out, "openckpt").unwrap();
                st.bump("open_checkpoint_standalone");
                if vidx {
                    writeln!(out, "ckhist {}", r.below(NK)).unwrap();
                    writeln!(out, "ckhist {}", r.below(NK)).unwrap();
                    st.bump("checkpoint_history_standalone");
                }
            }
            // now and then the clean-up of a flush made before the restore only runs after it
            let held = r.chance(1, 3);
            if held {
                writeln!(out, "hold").unwrap();
                vctr += 1;
                writeln!(out, "txn {}={}:9", r.below(NK), vctr).unwrap();
                writeln!(out, "flush").unwrap();
                st.bump("cleanup_held_across_restore");
            }
            writeln!(out, "restore").unwrap();
            st.bump("restore");
            writeln!(out, "scan").unwrap();
            if vidx {
                for k in 0..NK {
                    writeln!(out, "hist {k}").unwrap();
                }
            }
            if held {
                vctr += 1;
                writeln!(out, "txn {}={}:9", r.below(NK), vctr).unwrap();
                writeln!(out, "release").unwrap();
                writeln!(out, "crashscan").unwrap();
            }
            // the store keeps its guarantees after the restore
            for _ in 0..r.range(1, 3) {
                match r.below(4) {
                    0 => {
                        writeln!(out, "race {}", r.below(NK)).unwrap();
                        st.bump("race_after_restore");
                    }
                    1 => {
                        writeln!(out, "snapread {}", r.below(NK)).unwrap();
                        st.bump("snapread_after_restore");
                    }
                    _ => {}
                }
                let n3 = r.range(1, 6);
                phase_ops(&mut r, &mut out, n3, &mut vctr, &mut st);
            }
            if bursts {
                burst(&mut r, &mut out, &mut vctr, &mut st);
            }
            if r.chance(2, 3) {
                writeln!(out, "reopen").unwrap();
                writeln!(out, "scan").unwrap();
                st.bump("reopen_after_restore");
            }
        }
        let _ = have_ckpt;
        if rounds >= 2 && r.chance(1, 2) {
            // back to the older checkpoint, then forward to the newer one (its log number lies above the live one), a few
            // commits, and a process crash
            writeln!(out, "restore 1").unwrap();
            writeln!(out, "scan").unwrap();
            writeln!(out, "restore 2").unwrap();
            writeln!(out, "scan").unwrap();
            for _ in 0..r.range(1, 3) {
                vctr += 1;
                writeln!(out, "txn {}={}:12", r.below(NK), vctr).unwrap();
            }
            writeln!(out, "crashscan").unwrap();
            if r.chance(1, 2) {
                writeln!(out, "reopen").unwrap();
            }
            st.bump("restore_older_then_newer");
        }
        writeln!(out, "scan").unwrap();
        if vidx {
            for k in 0..NK {
                writeln!(out, "hist {k}").unwrap();
            }
        }
    }
    if !a.stats.is_empty() {
        std::fs::write(&a.stats, st.to_json()).unwrap();
    }
    0
}

fn key(k: &str) -> Vec<u8> {
    format!("key{k}").into_bytes()
}
fn val(spec: &str) -> Vec<u8> {
    let (id, len) = spec.split_once(':').unwrap();
    let mut v = format!("v{id}-").into_bytes();
    let len: usize = len.parse().unwrap();
    v.resize(len.max(v.len()), b'a' + (id.parse::<u64>().unwrap() % 23) as u8);
    v
}
fn show(v: &[u8]) -> String {
    // "v<id>-" prefix identifies the value; the filler must be intact
    let s = String::from_utf8_lossy(v).to_string();
    let id: String = s.chars().skip(1).take_while(|c| c.is_ascii_digit()).collect();
    let fill = b'a' + (id.parse::<u64>().unwrap_or(0) % 23) as u8;
    let head = format!("v{id}-");
    let ok = s.starts_with(&head) && v[head.len()..].iter().all(|b| *b == fill);
    format!("{id}:{}{}", v.len(), if ok { "" } else { "!GARBLED" })
}

fn mk(p: &std::path::Path, vlog: bool) -> Options {
    if VIDX.load(std::sync::atomic::Ordering::SeqCst) {
        // versioning with the B+tree version index; no background compaction (compaction under versioning loses
        // history: known finding of C10)
        let mut o = Options::new();
        o.path = p.to_path_buf();
        o.enable_versioning = true;
        o.enable_vlog = true;
        o.vlog_value_threshold = 0;
        o.vlog_max_file_size = 2048;
        o.versioned_history_retention_ns = 0;
        o.enable_versioned_index = true;
        o.level0_max_files = 1000;
        o.max_bytes_for_level = 1 << 40;
        o.l0_stall_threshold = 1000;
        o.memtable_stall_threshold = 1000;
        o.block_size = 256;
        return o;
    }
    let mut o = Options::new();
    o.path = p.to_path_buf();
    o.level_count = 3;
    o.level0_max_files = 1;
    o.max_bytes_for_level = 1;
    o.l0_stall_threshold = 1000;
    o.memtable_stall_threshold = 1000;
    o.block_size = 256;
    if vlog {
        o.enable_vlog = true;
        o.vlog_value_threshold = 64;
        o.vlog_max_file_size = 2048;
    }
    o
}

fn scan(t: &Tree) -> Result<String, String> {
    let tx = t.begin().map_err(|e| err_name(&e))?;
    let mut it = tx.range(&b"a"[..], &b"z"[..]).map_err(|e| err_name(&e))?;
    let mut items = vec![];
    let mut ok = it.seek_first().map_err(|e| err_name(&e))?;
    while ok && it.valid() {
        let k = String::from_utf8_lossy(it.key().user_key()).to_string();
        let v = it.value().map_err(|e| err_name(&e))?;
        items.push(format!("{}={}", k.trim_start_matches("key"), show(&v)));
        ok = it.next().map_err(|e| err_name(&e))?;
        if items.len() > 100 {
            return Err("runaway".into());
        }
    }
    Ok(if items.is_empty() { "-".into() } else { items.join(",") })
}

static VIDX: std::sync::atomic::AtomicBool = std::sync::atomic::AtomicBool::new(false);

/// the retained versions of one key, newest first, as value ids
fn hist(t: &Tree, k: &str) -> Result<String, String> {
    let tx = t.begin().map_err(|e| err_name(&e))?;
    let lo = key(k);
    let mut hi = lo.clone();
    hi.push(0);
    let o = surrealkv::HistoryOptions::new().with_tombstones(true);
    let mut it = tx.history_with_options(lo, hi, &o).map_err(|e| err_name(&e))?;
    let mut items = vec![];
    let mut ok = it.seek_first().map_err(|e| err_name(&e))?;
    while ok && it.valid() {
        if it.key().is_tombstone() {
            items.push("T".to_string());
        } else {
            let v = it.value().map_err(|e| err_name(&e))?;
            items.push(show(&v));
        }
        ok = it.next().map_err(|e| err_name(&e))?;
        if items.len() > 200 {
            return Err("runaway".into());
        }
    }
    Ok(if items.is_empty() { "-".into() } else { items.join(",") })
}

static HOLD: std::sync::atomic::AtomicBool = std::sync::atomic::AtomicBool::new(false);
static HELD: std::sync::atomic::AtomicU64 = std::sync::atomic::AtomicU64::new(0);

pub fn exec(a: &Args) -> i32 {
    // more workers than held clean-up tasks can occupy
    let rt = tokio::runtime::Builder::new_multi_thread().worker_threads(8).enable_all().build().unwrap();
    let _g = rt.enter();
    surrealkv::verif::set_yield_handler(Some(std::sync::Arc::new(|name: &'static str| {
        use std::sync::atomic::Ordering;
        if name == "flush.wal_cleanup_start" && HOLD.load(Ordering::SeqCst) {
            // the asynchronous commit-log clean-up of a flush is delayed until `release`
            HELD.fetch_add(1, Ordering::SeqCst);
            let t0 = std::time::Instant::now();
            while HOLD.load(Ordering::SeqCst) && t0.elapsed() < std::time::Duration::from_secs(20) {
                std::thread::sleep(std::time::Duration::from_millis(1));
            }
            HELD.fetch_sub(1, Ordering::SeqCst);
        }
    })));
    let text = std::fs::read_to_string(&a.ops).expect("ops");
    let mut out = std::io::BufWriter::new(std::fs::File::create(&a.out).expect("out"));
    let mut dir = tempfile::tempdir().expect("tempdir");
    let mut ckpt = tempfile::tempdir().expect("tempdir");
    let mut tree: Option<Tree> = None;
    let mut vlog = false;
    let mut nckpt = 0;
    for line in text.lines() {
        let w: Vec<&str> = line.split_whitespace().collect();
        let res = std::panic::catch_unwind(std::panic::AssertUnwindSafe(|| -> String {
            let en = |e: &surrealkv::Error| format!("err:{}", err_name(e));
            match w.first().copied() {
                Some("case") => {
                    HOLD.store(false, std::sync::atomic::Ordering::SeqCst);
                    if let Some(t) = tree.take() {
                        let _ = rt.block_on(t.close());
                    }
                    dir = tempfile::tempdir().expect("tempdir");
                    ckpt = tempfile::tempdir().expect("tempdir");
                    vlog = w[2] == "1";
                    nckpt = 0;
                    VIDX.store(w.get(3).copied() == Some("1"), std::sync::atomic::Ordering::SeqCst);
                    match TreeBuilder::with_options(mk(dir.path(), vlog)).build() {
                        Ok(t) => {
                            tree = Some(t);
                            "-".into()
                        }
                        Err(e) => en(&e),
                    }
                }
                Some("txn") => {
                    let Some(t) = tree.as_ref() else { return "bad-op".into() };
                    let r = (|| -> Result<(), surrealkv::Error> {
                        let mut tx = t.begin()?;
                        for kv in &w[1..] {
                            let (k, v) = kv.split_once('=').unwrap();
                            if v == "DEL" {
                                tx.delete(key(k))?;
                            } else {
                                tx.set(key(k), val(v))?;
                            }
                        }
                        rt.block_on(tx.commit())
                    })();
                    match r {
                        Ok(()) => "ok".into(),
                        Err(e) => en(&e),
                    }
                }
                Some("get") => {
                    let Some(t) = tree.as_ref() else { return "bad-op".into() };
                    let r = (|| -> Result<Option<Vec<u8>>, surrealkv::Error> {
                        let tx = t.begin()?;
                        tx.get(key(w[1]))
                    })();
                    match r {
                        Ok(None) => "none".into(),
                        Ok(Some(v)) => show(&v),
                        Err(e) => en(&e),
                    }
                }
                Some("scan") => {
                    let Some(t) = tree.as_ref() else { return "bad-op".into() };
                    scan(t).unwrap_or_else(|e| format!("err:{e}"))
                }
                Some("hist") => {
                    let Some(t) = tree.as_ref() else { return "bad-op".into() };
                    hist(t, w[1]).unwrap_or_else(|e| format!("err:{e}"))
                }
                Some("ckhist") => {
                    // the history of one key in a copy of the checkpoint directory opened as a database of its own
                    let p = ckpt.path().join(format!("c{nckpt}"));
                    let tmp = tempfile::tempdir().expect("tempdir");
                    fn cp(a: &std::path::Path, b: &std::path::Path) {
                        std::fs::create_dir_all(b).unwrap();
                        for e in std::fs::read_dir(a).unwrap().flatten() {
                            let d = b.join(e.file_name());
                            if e.path().is_dir() {
                                cp(&e.path(), &d);
                            } else {
                                let _ = std::fs::copy(e.path(), d);
                            }
                        }
                    }
                    cp(&p, tmp.path());
                    match TreeBuilder::with_options(mk(tmp.path(), vlog)).build() {
                        Ok(t2) => {
                            let s = hist(&t2, w[1]).unwrap_or_else(|e| format!("err:{e}"));
                            let _ = rt.block_on(t2.close());
                            s
                        }
                        Err(e) => en(&e),
                    }
                }
                Some("flush") => {
                    let Some(t) = tree.as_ref() else { return "bad-op".into() };
                    match vs::rotate(t).and_then(|_| vs::flush_immutables(t)) {
                        Ok(()) => "ok".into(),
                        Err(e) => format!("err:{}", e.replace(' ', "_")),
                    }
                }
                Some("hold") => {
                    HOLD.store(true, std::sync::atomic::Ordering::SeqCst);
                    "ok".into()
                }
                Some("release") => {
                    HOLD.store(false, std::sync::atomic::Ordering::SeqCst);
                    // let the delayed clean-up tasks run to completion
                    let t0 = std::time::Instant::now();
                    while HELD.load(std::sync::atomic::Ordering::SeqCst) > 0 && t0.elapsed() < std::time::Duration::from_secs(5) {
                        std::thread::sleep(std::time::Duration::from_millis(1));
                    }
                    std::thread::sleep(std::time::Duration::from_millis(20));
                    "ok".into()
                }
                Some("compact") => {
                    let Some(t) = tree.as_ref() else { return "bad-op".into() };
                    match vs::compact_round(t) {
                        Ok(()) => "ok".into(),
                        Err(e) => format!("err:{}", e.replace(' ', "_")),
                    }
                }
                Some("checkpoint") => {
                    let Some(t) = tree.as_ref() else { return "bad-op".into() };
                    nckpt += 1;
                    let p = ckpt.path().join(format!("c{nckpt}"));
                    match t.create_checkpoint(&p) {
                        Ok(_) => "ok".into(),
                        Err(e) => en(&e),
                    }
                }
                Some("restore") => {
                    let Some(t) = tree.as_ref() else { return "bad-op".into() };
                    // `restore <k>`: the k-th checkpoint of the case; without argument the latest
                    let which: usize = w.get(1).and_then(|x| x.parse().ok()).unwrap_or(nckpt);
                    let p = ckpt.path().join(format!("c{which}"));
                    match t.restore_from_checkpoint(&p) {
                        Ok(_) => "ok".into(),
                        Err(e) => en(&e),
                    }
                }
                Some("openckpt") => {
                    // a copy of the checkpoint directory opened as a database of its own
                    let p = ckpt.path().join(format!("c{nckpt}"));
                    let tmp = tempfile::tempdir().expect("tempdir");
                    fn cp(a: &std::path::Path, b: &std::path::Path) {
                        std::fs::create_dir_all(b).unwrap();
                        for e in std::fs::read_dir(a).unwrap().flatten() {
                            let d = b.join(e.file_name());
                            if e.path().is_dir() {
                                cp(&e.path(), &d);
                            } else {
                                let _ = std::fs::copy(e.path(), d);
                            }
                        }
                    }
                    cp(&p, tmp.path());
                    match TreeBuilder::with_options(mk(tmp.path(), vlog)).build() {
                        Ok(t2) => {
                            let s = scan(&t2).unwrap_or_else(|e| format!("err:{e}"));
                            let _ = rt.block_on(t2.close());
                            s
                        }
                        Err(e) => en(&e),
                    }
                }
                Some("crashscan") => {
                    // process-crash image of the live directory, opened as a store of its own
                    let tmp = tempfile::tempdir().expect("tempdir");
                    fn cp(a: &std::path::Path, b: &std::path::Path) {
                        std::fs::create_dir_all(b).unwrap();
                        for e in std::fs::read_dir(a).unwrap().flatten() {
                            let d = b.join(e.file_name());
                            if e.path().is_dir() {
                                cp(&e.path(), &d);
                            } else if e.file_name() != "LOCK" {
                                let _ = std::fs::copy(e.path(), d);
                            }
                        }
                    }
                    cp(dir.path(), tmp.path());
                    match TreeBuilder::with_options(mk(tmp.path(), vlog)).build() {
                        Ok(t2) => {
                            let s = scan(&t2).unwrap_or_else(|e| format!("err:{e}"));
                            let _ = rt.block_on(t2.close());
                            s
                        }
                        Err(e) => en(&e),
                    }
                }
                Some("race") => {
                    // two overlapping read-modify-write transactions on one key: the second to commit must be refused
                    let Some(t) = tree.as_ref() else { return "bad-op".into() };
                    let r = (|| -> Result<String, surrealkv::Error> {
                        let mut a1 = t.begin()?;
                        let mut b1 = t.begin()?;
                        let _ = a1.get(key(w[1]))?;
                        let _ = b1.get(key(w[1]))?;
                        a1.set(key(w[1]), val("900001:5"))?;
                        b1.set(key(w[1]), val("900002:5"))?;
                        rt.block_on(a1.commit())?;
                        Ok(match rt.block_on(b1.commit()) {
                            Ok(()) => "second=committed".to_string(),
                            Err(_) => "second=refused".to_string(),
                        })
                    })();
                    match r {
                        Ok(s) => s,
                        Err(e) => en(&e),
                    }
                }
                Some("snapread") => {
                    // a reader that began before a commit keeps its view
                    let Some(t) = tree.as_ref() else { return "bad-op".into() };
                    let r = (|| -> Result<String, surrealkv::Error> {
                        let rd = t.begin()?;
                        let before = rd.get(key(w[1]))?;
                        let mut wtx = t.begin()?;
                        wtx.set(key(w[1]), val("900003:7"))?;
                        rt.block_on(wtx.commit())?;
                        let after = rd.get(key(w[1]))?;
                        Ok(if before == after { "stable".to_string() } else { "CHANGED".to_string() })
                    })();
                    match r {
                        Ok(s) => s,
                        Err(e) => en(&e),
                    }
                }
                Some("reopen") => {
                    let Some(t) = tree.take() else { return "bad-op".into() };
                    if let Err(e) = rt.block_on(t.close()) {
                        return en(&e);
                    }
                    match TreeBuilder::with_options(mk(dir.path(), vlog)).build() {
                        Ok(t) => {
                            tree = Some(t);
                            "ok".into()
                        }
                        Err(e) => en(&e),
                    }
                }
                _ => "bad-op".into(),
            }
        }));
        let res = res.unwrap_or_else(|p| {
            let msg = p.downcast_ref::<String>().cloned().or_else(|| p.downcast_ref::<&str>().map(|s| s.to_string())).unwrap_or_default();
            format!("PANIC:{}", msg.replace(' ', "_").chars().take(80).collect::<String>())
        });
        writeln!(out, "{res}").unwrap();
    }
    if let Some(t) = tree.take() {
        let _ = rt.block_on(t.close());
    }
    out.flush().unwrap();
    0
}
