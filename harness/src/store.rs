//! Store-level histories with placements (C01 / C06): a real `Tree`, several readers that share
//! start points, memtable rotation / flush / compaction rounds / reopen between any two operations.
use crate::rng::Rng;
use crate::util::*;
use crate::Args;
use std::collections::HashMap;
use std::io::Write;
use surrealkv::verif::store as vs;
use surrealkv::{LSMIterator, Options, Transaction, Tree, TreeBuilder};

const KEYS: &[&[u8]] = &[b"a", b"ab", b"b", b"b\x00", b"c", b"\xff"];

pub fn gen(a: &Args) -> i32 {
    let mut out = std::io::BufWriter::new(std::fs::File::create(&a.out).expect("out"));
    let mut st = Stats::default();
    for case in 0..a.cases {
        let mut r = Rng::for_case(a.seed, case);
        let levels = r.range(1, 4);
        let l0max = r.range(1, 3);
        let c11 = a.extra.get("mode").map(|m| m == "c11").unwrap_or(false);
        let vlog = if c11 { 1 } else { r.chance(1, 3) as u8 };
        // C11 mode: separation threshold and value-log file size vary; values sit around the threshold
        let thr = if c11 { *r.pick(&[0usize, 64]) } else { 0 };
        let vfile = if c11 { *r.pick(&[256usize, 512, 4096]) } else { 512 };
        writeln!(out, "case {case} {levels} {l0max} {vlog} {thr} {vfile}").unwrap();
        if c11 {
            st.bump(&format!("threshold_{thr}"));
            st.bump(&format!("vlogfile_{vfile}"));
        }
        st.bump(&format!("levels_{levels}"));
        let nk = r.range(2, KEYS.len() as u64) as usize;
        let nops = r.range(8, if a.thorough { 90 } else { 45 });
        let mut vctr = 0u64;
        let mut open: Vec<u64> = vec![];
        let mut next_reader = 0u64;
        let mut placements = 0;
        let mut overwrote = false;
        let mut written: Vec<usize> = vec![];
        for _ in 0..nops {
            let x = r.below(100);
            if x < 30 {
                let n = r.range(1, 3);
                let mut ws: Vec<String> = vec![];
                for _ in 0..n {
                    let ki = r.below(nk as u64) as usize;
                    if written.contains(&ki) {
                        overwrote = true;
                    }
                    written.push(ki);
                    let k = hex(KEYS[ki]);
                    let y = r.below(10);
                    if y < 6 {
                        vctr += 1;
                        // with the value log on, values are large enough to roll vlog files over
                        let mut val = format!("v{vctr}").into_bytes();
                        if c11 {
                            let t = thr.max(8);
                            let len = match r.below(6) {
                                0 => 0,
                                1 => t - 1,
                                2 => t,
                                3 => t + 1,
                                4 => r.range(2000, 5000) as usize,
                                _ => r.range(1, 300) as usize,
                            };
                            st.bump(match len { 0 => "len_0", l if l + 1 == t => "len_t-1", l if l == t => "len_t", l if l == t + 1 => "len_t+1", l if l >= 2000 => "len_multi_block", _ => "len_other" });
                            val.resize(len.max(if len == 0 { 0 } else { val.len().min(len) }), b'a' + (vctr % 20) as u8);
                            val.truncate(len);
                        } else if vlog == 1 {
                            val.resize(150 + r.below(100) as usize, b'x');
                        }
                        ws.push(format!("{k}={}", hex(&val)));
                    } else if y < 9 {
                        ws.push(format!("{k}=DEL"));
                    } else {
                        ws.push(format!("{k}=SDEL"));
                    }
                }
                writeln!(out, "txn {}", ws.join(" ")).unwrap();
                st.bump("op_txn");
            } else if x < 42 && open.len() < 4 && r.chance(1, 5) {
                // a reader whose begin() is caught between reading the visible sequence number and registering its snapshot
                // while a transaction overwrites keys and everything is flushed and compacted down
                let point = if r.chance(1, 2) { "txn.loaded_seq" } else { "txn.registered" };
                let mut ws = vec![];
                let mut ks = vec![];
                for _ in 0..r.range(1, 2) {
                    let k = hex(KEYS[r.below(nk as u64) as usize]);
                    if ks.contains(&k) {
                        continue;
                    }
                    if r.chance(1, 4) {
                        ws.push(format!("{k}=DEL"));
                    } else {
                        vctr += 1;
                        ws.push(format!("{k}={}", hex(format!("v{vctr}").as_bytes())));
                    }
                    ks.push(k);
                }
                writeln!(out, "beginover {next_reader} {point} {}", ws.join(" ")).unwrap();
                for k in &ks {
                    writeln!(out, "get {next_reader} {k}").unwrap();
                }
                open.push(next_reader);
                next_reader += 1;
                placements += 1;
                st.bump("op_begin_during_overwrite_flush_compaction");
            } else if x < 42 && open.len() < 4 {
                // readers opened back to back share a start point
                let burst = if r.chance(1, 3) { 2 } else { 1 };
                for _ in 0..burst {
                    writeln!(out, "begin {next_reader}").unwrap();
                    open.push(next_reader);
                    next_reader += 1;
                    st.bump("op_begin");
                }
            } else if x < 60 && !open.is_empty() {
                let rd = *r.pick(&open);
                if r.chance(1, 2) {
                    writeln!(out, "get {rd} {}", hex(KEYS[r.below(nk as u64) as usize])).unwrap();
                } else {
                    writeln!(out, "scan {rd} {}", if r.chance(1, 2) { "fwd" } else { "bwd" }).unwrap();
                }
                st.bump("op_read");
            } else if x < 66 && !open.is_empty() {
                let i = r.below(open.len() as u64) as usize;
                writeln!(out, "end {}", open.remove(i)).unwrap();
                st.bump("op_end");
            } else if x < 74 {
                writeln!(out, "rotate").unwrap();
                placements += 1;
            } else if x < 84 {
                writeln!(out, "flush").unwrap();
                placements += 1;
            } else if x < 94 {
                if r.chance(1, 3) {
                    // a compaction round during which (inputs hidden, output written, manifest not yet switched) the
                    // current memtable is flushed, as the two background tasks do side by side
                    writeln!(out, "compactflush").unwrap();
                    st.bump("op_flush_during_compaction");
                } else {
                    writeln!(out, "compact").unwrap();
                }
                placements += 1;
                st.bump("op_compact");
                if c11 {
                    writeln!(out, "vcheck").unwrap();
                }
            } else if x < 96 {
                writeln!(out, "reopen").unwrap();
                open.clear();
                st.bump("op_reopen");
            } else {
                writeln!(out, "fresh {}", hex(KEYS[r.below(nk as u64) as usize])).unwrap();
            }
        }
        // final sweep: every open reader and a fresh one read everything
        for rd in &open {
            for k in 0..nk {
                writeln!(out, "get {rd} {}", hex(KEYS[k])).unwrap();
            }
            writeln!(out, "scan {rd} fwd").unwrap();
            writeln!(out, "scan {rd} bwd").unwrap();
        }
        for k in 0..nk {
            writeln!(out, "fresh {}", hex(KEYS[k])).unwrap();
        }
        if c11 {
            writeln!(out, "vcheck").unwrap();
        }
        if placements > 0 && overwrote && !open.is_empty() {
            st.bump("nontrivial_cases");
        }
    }
    out.flush().unwrap();
    if !a.stats.is_empty() {
        std::fs::write(&a.stats, st.to_json()).unwrap();
    }
    0
}

struct Store {
    dir: tempfile::TempDir,
    tree: Option<Tree>,
    opts: (u8, usize, bool, usize, u64),
    readers: HashMap<u64, Transaction>,
}

fn build(path: &std::path::Path, o: (u8, usize, bool, usize, u64)) -> Tree {
    let mut opts = Options::new();
    opts.path = path.to_path_buf();
    opts.level_count = o.0;
    opts.level0_max_files = o.1;
    opts.l0_stall_threshold = 1000;
    opts.memtable_stall_threshold = 1000;
    opts.max_bytes_for_level = 1; // every level above L0 is always "too big": compaction keeps pushing down
    opts.max_memtable_size = 1 << 20;
    if o.2 {
        opts.enable_vlog = true;
        opts.vlog_value_threshold = o.3;
        opts.vlog_max_file_size = o.4;
    }
    TreeBuilder::with_options(opts).build().expect("build")
}

thread_local! { static BEGINNER: std::cell::Cell<bool> = std::cell::Cell::new(false); }

pub fn exec(a: &Args) -> i32 {
    let rt = tokio::runtime::Builder::new_multi_thread().worker_threads(2).enable_all().build().unwrap();
    let _g = rt.enter();
    let text = std::fs::read_to_string(&a.ops).expect("ops");
    let mut out = std::io::BufWriter::new(std::fs::File::create(&a.out).expect("out"));
    let mut st: Option<Store> = None;
    for line in text.lines() {
        let w: Vec<&str> = line.split_whitespace().collect();
        let res = std::panic::catch_unwind(std::panic::AssertUnwindSafe(|| -> String {
            match w.first().copied() {
                Some("case") => {
                    if let Some(mut s) = st.take() {
                        s.readers.clear();
                        if let Some(t) = s.tree.take() {
                            let _ = rt.block_on(t.close());
                        }
                    }
                    let dir = tempfile::tempdir().expect("tempdir");
                    let o = (
                        w[2].parse::<u8>().unwrap(),
                        w[3].parse::<usize>().unwrap(),
                        w[4] == "1",
                        w.get(5).and_then(|x| x.parse::<usize>().ok()).unwrap_or(0),
                        w.get(6).and_then(|x| x.parse::<u64>().ok()).unwrap_or(512),
                    );
                    let tree = build(dir.path(), o);
                    st = Some(Store { dir, tree: Some(tree), opts: o, readers: HashMap::new() });
                    "-".into()
                }
                Some("txn") => {
                    let s = st.as_mut().unwrap();
                    let mut t = s.tree.as_ref().unwrap().begin().expect("begin");
                    for wr in &w[1..] {
                        let (k, v) = wr.split_once('=').unwrap();
                        let k = unhex(k);
                        let r = match v {
                            "DEL" => t.delete(k),
                            "SDEL" => t.soft_delete(k),
                            _ => t.set(k, unhex(v)),
                        };
                        if let Err(e) = r {
                            return format!("err:{}", err_name(&e));
                        }
                    }
                    match rt.block_on(t.commit()) {
                        Ok(()) => "ok".into(),
                        Err(e) => format!("err:{}", err_name(&e)),
                    }
                }
                Some("beginover") => {
                    let s = st.as_mut().unwrap();
                    let id: u64 = w[1].parse().unwrap();
                    let point = w[2].to_string();
                    let tree: &Tree = s.tree.as_ref().unwrap();
                    let addr = tree as *const Tree as usize;
                    // 0 idle, 1 reader parked inside begin(), 2 released
                    let state = std::sync::Arc::new(std::sync::atomic::AtomicU8::new(0));
                    let st2 = std::sync::Arc::clone(&state);
                    surrealkv::verif::set_yield_handler(Some(std::sync::Arc::new(move |name: &'static str| {
                        use std::sync::atomic::Ordering::SeqCst;
                        if name == point && BEGINNER.with(|m| m.get()) && st2.compare_exchange(0, 1, SeqCst, SeqCst).is_ok() {
                            let t0 = std::time::Instant::now();
                            while st2.load(SeqCst) != 2 && t0.elapsed() < std::time::Duration::from_secs(20) {
                                std::thread::sleep(std::time::Duration::from_micros(200));
                            }
                        }
                    })));
                    let h = std::thread::spawn(move || {
                        BEGINNER.with(|m| m.set(true));
                        // SAFETY: the tree outlives this thread, which is joined below
                        let t: &Tree = unsafe { &*(addr as *const Tree) };
                        t.begin()
                    });
                    let t0 = std::time::Instant::now();
                    while state.load(std::sync::atomic::Ordering::SeqCst) != 1 && t0.elapsed() < std::time::Duration::from_secs(5) {
                        std::thread::sleep(std::time::Duration::from_micros(200));
                    }
                    // the overwriting transaction, then everything down to the last level
                    let r = (|| -> Result<(), String> {
                        let mut t = tree.begin().map_err(|e| err_name(&e))?;
                        for wr in &w[3..] {
                            let (k, v) = wr.split_once('=').unwrap();
                            let k = unhex(k);
                            match v {
                                "DEL" => t.delete(k),
                                "SDEL" => t.soft_delete(k),
                                _ => t.set(k, unhex(v)),
                            }
                            .map_err(|e| err_name(&e))?;
                        }
                        rt.block_on(t.commit()).map_err(|e| err_name(&e))?;
                        drop(t); // its snapshot must not stand in for the reader's during the compaction
                        vs::rotate(tree).and_then(|_| vs::flush_immutables(tree))?;
                        for _ in 0..s.opts.0 {
                            vs::compact_round_eager(tree)?;
                        }
                        Ok(())
                    })();
                    state.store(2, std::sync::atomic::Ordering::SeqCst);
                    let reader = h.join();
                    surrealkv::verif::set_yield_handler(None);
                    match (r, reader) {
                        (Ok(()), Ok(Ok(t))) => {
                            s.readers.insert(id, t);
                            "ok".into()
                        }
                        (Err(e), _) => format!("err:{}", e.replace(' ', "_")),
                        (_, Ok(Err(e))) => format!("err:begin:{}", err_name(&e)),
                        (_, Err(_)) => "err:begin-thread-panicked".into(),
                    }
                }
                Some("begin") => {
                    let s = st.as_mut().unwrap();
                    let id: u64 = w[1].parse().unwrap();
                    let t = s.tree.as_ref().unwrap().begin().expect("begin");
                    s.readers.insert(id, t);
                    "ok".into()
                }
                Some("end") => {
                    let s = st.as_mut().unwrap();
                    let id: u64 = w[1].parse().unwrap();
                    s.readers.remove(&id);
                    "ok".into()
                }
                Some("get") => {
                    let s = st.as_mut().unwrap();
                    let id: u64 = w[1].parse().unwrap();
                    match s.readers.get(&id) {
                        None => "no-reader".into(),
                        Some(t) => match t.get(unhex(w[2])) {
                            Ok(v) => opt_hex(&v),
                            Err(e) => format!("err:{}", err_name(&e)),
                        },
                    }
                }
                Some("scan") => {
                    let s = st.as_mut().unwrap();
                    let id: u64 = w[1].parse().unwrap();
                    match s.readers.get(&id) {
                        None => "no-reader".into(),
                        Some(t) => {
                            let mut it = match t.range(&b"\x00"[..], &b"\xff\xff\xff"[..]) {
                                Ok(it) => it,
                                Err(e) => return format!("err:{}", err_name(&e)),
                            };
                            let fwd = w[2] == "fwd";
                            let mut items: Vec<String> = vec![];
                            let mut ok = if fwd { it.seek_first() } else { it.seek_last() };
                            loop {
                                match ok {
                                    Err(e) => return format!("err:{}", err_name(&e)),
                                    Ok(false) => break,
                                    Ok(true) => {}
                                }
                                if !it.valid() {
                                    break;
                                }
                                let k = it.key().user_key().to_vec();
                                let v = match it.value() {
                                    Ok(v) => v,
                                    Err(e) => return format!("err:{}", err_name(&e)),
                                };
                                items.push(format!("{}={}", hex(&k), render_val(&v)));
                                ok = if fwd { it.next() } else { it.prev() };
                                if items.len() > 100 {
                                    return "err:runaway".into();
                                }
                            }
                            if items.is_empty() { "-".into() } else { items.join(",") }
                        }
                    }
                }
                Some("fresh") => {
                    let s = st.as_mut().unwrap();
                    let t = s.tree.as_ref().unwrap().begin().expect("begin");
                    match t.get(unhex(w[1])) {
                        Ok(v) => opt_hex(&v),
                        Err(e) => format!("err:{}", err_name(&e)),
                    }
                }
                Some("vcheck") => match vs::vlog_audit(st.as_ref().unwrap().tree.as_ref().unwrap()) {
                    Ok(bad) if bad.is_empty() => "ok".into(),
                    Ok(bad) => format!("BAD {}", bad.join(";")),
                    Err(e) => format!("err:{}", e.replace(' ', "_")),
                },
                Some("rotate") => match vs::rotate(st.as_ref().unwrap().tree.as_ref().unwrap()) {
                    Ok(()) => "ok".into(),
                    Err(e) => format!("err:{}", e.replace(' ', "_")),
                },
                Some("flush") => {
                    let t = st.as_ref().unwrap().tree.as_ref().unwrap();
                    match vs::rotate(t).and_then(|_| vs::flush_immutables(t)) {
                        Ok(()) => "ok".into(),
                        Err(e) => format!("err:{}", e.replace(' ', "_")),
                    }
                }
                Some("compactflush") => {
                    // (a clone of the `Tree` handle would close the store when dropped: the handler gets the address)
                    let t: &Tree = st.as_ref().unwrap().tree.as_ref().unwrap();
                    let addr = t as *const Tree as usize;
                    let done = std::sync::Arc::new(std::sync::atomic::AtomicBool::new(false));
                    let d2 = std::sync::Arc::clone(&done);
                    surrealkv::verif::set_yield_handler(Some(std::sync::Arc::new(move |name: &'static str| {
                        if name == "compact.output_written" && !d2.swap(true, std::sync::atomic::Ordering::SeqCst) {
                            // SAFETY: the tree outlives the synchronous compaction round below; the handler is removed after it
                            let t2: &Tree = unsafe { &*(addr as *const Tree) };
                            let _ = vs::rotate(t2).and_then(|_| vs::flush_immutables(t2));
                        }
                    })));
                    let r = vs::compact_round(t);
                    surrealkv::verif::set_yield_handler(None);
                    match r {
                        Ok(()) => "ok".into(),
                        Err(e) => format!("err:{}", e.replace(' ', "_")),
                    }
                }
                Some("compact") => match vs::compact_round(st.as_ref().unwrap().tree.as_ref().unwrap()) {
                    Ok(()) => "ok".into(),
                    Err(e) => format!("err:{}", e.replace(' ', "_")),
                },
                Some("reopen") => {
                    let s = st.as_mut().unwrap();
                    s.readers.clear();
                    if let Some(t) = s.tree.take() {
                        if let Err(e) = rt.block_on(t.close()) {
                            return format!("err:close:{}", err_name(&e));
                        }
                    }
                    match std::panic::catch_unwind(|| ()) {
                        _ => {}
                    }
                    let mut opts = Options::new();
                    opts.path = s.dir.path().to_path_buf();
                    let _ = opts;
                    let o = s.opts;
                    let path = s.dir.path().to_path_buf();
                    let mut b = Options::new();
                    b.path = path.clone();
                    b.level_count = o.0;
                    b.level0_max_files = o.1;
                    b.l0_stall_threshold = 1000;
                    b.memtable_stall_threshold = 1000;
                    b.max_bytes_for_level = 1;
                    b.max_memtable_size = 1 << 20;
                    if o.2 {
                        b.enable_vlog = true;
                        b.vlog_value_threshold = 0;
                        b.vlog_max_file_size = 512;
                    }
                    match TreeBuilder::with_options(b).build() {
                        Ok(t) => {
                            s.tree = Some(t);
                            "ok".into()
                        }
                        Err(e) => format!("err:open:{}", err_name(&e)),
                    }
                }
                _ => "bad-op".into(),
            }
        }));
        match res {
            Ok(s) => writeln!(out, "{s}").unwrap(),
            Err(_) => writeln!(out, "PANIC").unwrap(),
        }
    }
    out.flush().unwrap();
    if let Some(mut s) = st.take() {
        s.readers.clear();
        if let Some(t) = s.tree.take() {
            let _ = rt.block_on(t.close());
        }
    }
    0
}
