//! One PRNG state per run (splitmix64 seeded xoshiro256**); every case replays from (seed, index).
#[derive(Clone)]
pub struct Rng {
    s: [u64; 4],
}
fn splitmix(x: &mut u64) -> u64 {
    *x = x.wrapping_add(0x9E3779B97F4A7C15);
    let mut z = *x;
    z = (z ^ (z >> 30)).wrapping_mul(0xBF58476D1CE4E5B9);
    z = (z ^ (z >> 27)).wrapping_mul(0x94D049BB133111EB);
    z ^ (z >> 31)
}
impl Rng {
    pub fn new(seed: u64) -> Self {
        let mut x = seed;
        Rng { s: [splitmix(&mut x), splitmix(&mut x), splitmix(&mut x), splitmix(&mut x)] }
    }
    pub fn for_case(seed: u64, case: u64) -> Self {
        Rng::new(seed.wrapping_mul(0x2545F4914F6CDD1D) ^ case.wrapping_mul(0x9E3779B97F4A7C15) ^ 0xabcdef)
    }
    pub fn next(&mut self) -> u64 {
        let r = self.s[1].wrapping_mul(5).rotate_left(7).wrapping_mul(9);
        let t = self.s[1] << 17;
        self.s[2] ^= self.s[0];
        self.s[3] ^= self.s[1];
        self.s[1] ^= self.s[2];
        self.s[0] ^= self.s[3];
        self.s[2] ^= t;
        self.s[3] = self.s[3].rotate_left(45);
        r
    }
    /// uniform in 0..n (n > 0)
    pub fn below(&mut self, n: u64) -> u64 {
        self.next() % n
    }
    pub fn range(&mut self, lo: u64, hi_incl: u64) -> u64 {
        lo + self.below(hi_incl - lo + 1)
    }
    pub fn chance(&mut self, num: u64, den: u64) -> bool {
        self.below(den) < num
    }
    pub fn pick<'a, T>(&mut self, xs: &'a [T]) -> &'a T {
        &xs[self.below(xs.len() as u64) as usize]
    }
}
