//! Deterministic schedule control for worker threads running real surrealkv code.
//! A worker blocks at *gates* (selected `verif_yield!` points and mock-environment calls) until the
//! controller releases it; the controller then waits until that worker reaches its next gate, a
//! non-blocking marker state, or finishes its call.
use std::cell::Cell;
use std::sync::{Arc, Condvar, Mutex};
use std::time::{Duration, Instant};

#[derive(Clone, Debug, PartialEq)]
pub enum WState {
    Idle,              // no call in progress
    Running,           // released, not yet at the next gate
    AtGate(String),    // blocked at a gate
    Marked(String),    // passed a non-blocking marker (e.g. waiting for completion); may finish by itself
}

pub struct Shared {
    pub states: Vec<WState>,
    pub go: Vec<bool>,
    pub results: Vec<Vec<String>>,
    pub marked: Vec<bool>, // passed a non-blocking marker during the current call
}

pub struct Sched {
    pub m: Mutex<Shared>,
    pub cv: Condvar,
}

thread_local! {
    pub static WORKER: Cell<Option<usize>> = const { Cell::new(None) };
}

impl Sched {
    pub fn new(n: usize) -> Arc<Self> {
        Arc::new(Sched {
            m: Mutex::new(Shared { states: vec![WState::Idle; n], go: vec![false; n], results: vec![vec![]; n], marked: vec![false; n] }),
            cv: Condvar::new(),
        })
    }

    /// called on a worker thread: block at gate `name` until released
    pub fn gate(&self, name: &str) {
        let Some(i) = WORKER.with(|w| w.get()) else { return };
        let mut g = self.m.lock().unwrap();
        g.states[i] = WState::AtGate(name.to_string());
        g.go[i] = false;
        self.cv.notify_all();
        while !g.go[i] {
            g = self.cv.wait(g).unwrap();
        }
        g.states[i] = WState::Running;
    }

    /// called on a worker thread: non-blocking marker
    pub fn mark(&self, name: &str) {
        let Some(i) = WORKER.with(|w| w.get()) else { return };
        let mut g = self.m.lock().unwrap();
        g.states[i] = WState::Marked(name.to_string());
        g.marked[i] = true;
        self.cv.notify_all();
    }

    /// called on a worker thread when its call returned
    pub fn finished(&self, res: String) {
        let Some(i) = WORKER.with(|w| w.get()) else { return };
        let mut g = self.m.lock().unwrap();
        g.states[i] = WState::Idle;
        g.results[i].push(res);
        self.cv.notify_all();
    }

    pub fn state(&self, i: usize) -> WState {
        self.m.lock().unwrap().states[i].clone()
    }

    /// controller: release worker `i` from its gate and wait until it is at a gate / marked / idle.
    /// Returns the new state, or None on timeout (hang).
    pub fn step(&self, i: usize, timeout: Duration) -> Option<WState> {
        let mut g = self.m.lock().unwrap();
        if !matches!(g.states[i], WState::AtGate(_)) {
            return Some(g.states[i].clone());
        }
        g.states[i] = WState::Running;
        g.go[i] = true;
        self.cv.notify_all();
        let deadline = Instant::now() + timeout;
        while g.states[i] == WState::Running {
            let now = Instant::now();
            if now >= deadline {
                return None;
            }
            let (ng, _) = self.cv.wait_timeout(g, deadline - now).unwrap();
            g = ng;
        }
        Some(g.states[i].clone())
    }

    /// controller: wait until worker `i` satisfies `pred`, up to `timeout`
    pub fn wait_for(&self, i: usize, timeout: Duration, pred: impl Fn(&WState) -> bool) -> bool {
        let mut g = self.m.lock().unwrap();
        let deadline = Instant::now() + timeout;
        while !pred(&g.states[i]) {
            let now = Instant::now();
            if now >= deadline {
                return false;
            }
            let (ng, _) = self.cv.wait_timeout(g, deadline - now).unwrap();
            g = ng;
        }
        true
    }
}
