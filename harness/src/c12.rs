//! C12 — commit-log framing, truncation, damage, repair: generator + executor against the real
//! `Wal`, `Reader` and `repair_corrupted_wal_segment` (through `surrealkv::verif::wal`).
use crate::rng::Rng;
use crate::util::*;
use crate::Args;
use std::io::Write;
use std::path::Path;
use surrealkv::verif::wal;

const B: usize = 32 * 1024;
const H: usize = 7;

fn gen_rec(len: usize, fill: usize) -> Vec<u8> {
    (0..len).map(|j| ((fill + j) % 256) as u8).collect()
}

/// writer arithmetic (only used to aim the generator at interesting offsets; the model under test
/// is the Lean one): returns header offsets of the physical fragments and the end offset
fn layout(off0: usize, len: usize, pos0: usize) -> (Vec<usize>, usize, usize) {
    let mut off = off0;
    let mut pos = pos0;
    let mut left = len;
    let mut begin = true;
    let mut hdrs = vec![];
    while begin || left > 0 {
        if B - off < H {
            pos += B - off;
            off = 0;
        }
        let avail = B - off - H;
        let f = left.min(avail);
        hdrs.push(pos);
        pos += H + f;
        off += H + f;
        left -= f;
        begin = false;
    }
    (hdrs, off, pos)
}

pub fn gen(a: &Args) -> i32 {
    let mut out = std::io::BufWriter::new(std::fs::File::create(&a.out).expect("out"));
    let mut st = Stats::default();
    for case in 0..a.cases {
        let mut r = Rng::for_case(a.seed, case);
        writeln!(out, "case {case}").unwrap();
        let big = r.chance(1, 4);
        st.bump(if big { "case_multiblock" } else { "case_small" });
        let nsess = r.range(1, 3);
        let mut off = 0usize;
        let mut pos = 0usize;
        let mut hdrs_all: Vec<usize> = vec![];
        let mut ends: Vec<usize> = vec![];
        let mut budget: usize = if big { 3 * B } else { 600 };
        for _ in 0..nsess {
            let nrec = r.range(1, 4);
            let mut line = String::from("session");
            // a session resumes at len mod B
            off = pos % B;
            for _ in 0..nrec {
                let room = B - off; // bytes to the block end
                let len = if big {
                    match r.below(6) {
                        0 => r.range(1, 60) as usize,
                        // leave 0..8 bytes before the block boundary after this record
                        1 | 2 => {
                            let d = r.below(9) as usize;
                            if room > H + d + 1 { room - H - d } else { r.range(1, 50) as usize }
                        }
                        3 => B - H,                       // exactly one full block payload
                        4 => r.range(B as u64, (B + B / 2) as u64) as usize, // spans blocks
                        _ => r.range(100, 5000) as usize,
                    }
                } else {
                    r.range(1, 120) as usize
                };
                let len = len.clamp(1, budget.max(1));
                budget = budget.saturating_sub(len);
                let fill = match r.below(5) {
                    0 => 0,
                    1 => 1,
                    _ => r.below(256) as usize,
                };
                let (h, noff, npos) = layout(off, len, pos);
                if h.len() > 1 {
                    st.bump("fragmented_records");
                }
                if B - noff < H {
                    st.bump("record_ends_in_pad_zone");
                }
                hdrs_all.extend(h);
                off = noff;
                pos = npos;
                ends.push(pos);
                line.push_str(&format!(" {len}:{fill}"));
                st.bump("records");
            }
            writeln!(out, "{line}").unwrap();
        }
        let flen = pos;
        let nops = if a.thorough { 400 } else { 120 };
        // interesting offsets
        let mut interesting: Vec<usize> = vec![];
        for &e in &ends {
            for d in 0..10 {
                interesting.push(e + d);
                interesting.push(e.saturating_sub(d));
            }
        }
        for &h in &hdrs_all {
            for d in 0..8 {
                interesting.push(h + d);
            }
        }
        let mut blk = B;
        while blk <= flen + B {
            for d in 0..9 {
                interesting.push(blk + d);
                interesting.push(blk - d);
            }
            blk += B;
        }
        interesting.retain(|&x| x <= flen);
        for _ in 0..nops {
            let x = r.below(100);
            let pick_off = |r: &mut Rng| -> usize {
                if r.chance(3, 4) && !interesting.is_empty() { *r.pick(&interesting) } else { r.below(flen as u64 + 1) as usize }
            };
            if x < 30 {
                let o = pick_off(&mut r);
                writeln!(out, "trunc {o}").unwrap();
                st.bump("op_trunc");
            } else if x < 60 {
                // damage: header bytes (esp. the type byte) get all the attention
                let o = if r.chance(1, 2) && !hdrs_all.is_empty() {
                    let h = *r.pick(&hdrs_all);
                    if r.chance(1, 2) { h + 6 } else { h + r.below(7) as usize }
                } else {
                    pick_off(&mut r)
                };
                let o = o.min(flen.saturating_sub(1));
                writeln!(out, "flip {o} {}", r.below(8)).unwrap();
                st.bump("op_flip");
            } else if x < 72 {
                let o = if r.chance(2, 3) && !hdrs_all.is_empty() { *r.pick(&hdrs_all) + 6 } else { pick_off(&mut r) };
                let o = o.min(flen.saturating_sub(1));
                let b = *r.pick(&[0u64, 0, 255, 9, 1, 4]);
                writeln!(out, "setb {o} {b}").unwrap();
                st.bump("op_setb");
            } else {
                let o = pick_off(&mut r);
                let nl = r.range(1, 40);
                writeln!(out, "recover {o} {nl}:{}", r.below(256)).unwrap();
                st.bump("op_recover");
            }
        }
    }
    out.flush().unwrap();
    if !a.stats.is_empty() {
        std::fs::write(&a.stats, st.to_json()).unwrap();
    }
    0
}

fn file_hash(b: &[u8]) -> u64 {
    let mut h: u64 = 7;
    for x in b {
        h = (h * 31 + *x as u64) % 4294967291;
    }
    h
}

fn seg(dir: &Path) -> std::path::PathBuf {
    dir.join("00000000000000000000.wal")
}

fn parse_rec(s: &str) -> Vec<u8> {
    let (l, f) = s.split_once(':').expect("len:fill");
    gen_rec(l.parse().unwrap(), f.parse().unwrap())
}

fn read_report(recs: &[Vec<u8>], path: &Path) -> String {
    let (out, end) = wal::read_all(path);
    let prefix = out.len() <= recs.len() && out.iter().zip(recs.iter()).all(|(a, b)| a == b);
    format!("k={} prefix={} end={}", out.len(), if prefix { "yes" } else { "no" }, end)
}

pub fn exec(a: &Args) -> i32 {
    let text = std::fs::read_to_string(&a.ops).expect("ops");
    let mut out = std::io::BufWriter::new(std::fs::File::create(&a.out).expect("out"));
    let mut dir = tempfile::tempdir().expect("tempdir");
    let scratch = tempfile::tempdir().expect("tempdir");
    let mut recs: Vec<Vec<u8>> = vec![];
    let mut file: Vec<u8> = vec![];
    for line in text.lines() {
        let w: Vec<&str> = line.split_whitespace().collect();
        let res = std::panic::catch_unwind(std::panic::AssertUnwindSafe(|| -> String {
            match w.first().copied() {
                Some("case") => {
                    dir = tempfile::tempdir().expect("tempdir");
                    recs.clear();
                    file.clear();
                    "-".into()
                }
                Some("session") => {
                    let rs: Vec<Vec<u8>> = w[1..].iter().map(|s| parse_rec(s)).collect();
                    if let Err(e) = wal::append_session(dir.path(), &rs) {
                        return format!("err:{e}");
                    }
                    recs.extend(rs);
                    file = std::fs::read(seg(dir.path())).unwrap_or_default();
                    format!("len={} h={}", file.len(), file_hash(&file))
                }
                Some("trunc") | Some("flip") | Some("setb") => {
                    let off: usize = w[1].parse().unwrap();
                    let mut f = file.clone();
                    match w[0] {
                        "trunc" => f.truncate(off),
                        "flip" => {
                            if off < f.len() {
                                f[off] ^= 1u8 << w[2].parse::<u32>().unwrap();
                            }
                        }
                        _ => {
                            if off < f.len() {
                                f[off] = w[2].parse::<u16>().unwrap() as u8;
                            }
                        }
                    }
                    let p = seg(scratch.path());
                    std::fs::write(&p, &f).unwrap();
                    read_report(&recs, &p)
                }
                Some("recover") => {
                    let off: usize = w[1].parse().unwrap();
                    let new = parse_rec(w[2]);
                    let d = tempfile::tempdir().expect("tempdir");
                    let mut f = file.clone();
                    f.truncate(off);
                    std::fs::write(seg(d.path()), &f).unwrap();
                    // store recovery flow: read; repair on a corruption report; reopen and append
                    let (_, end) = wal::read_all(&seg(d.path()));
                    if end == "corrupt" {
                        if let Err(e) = wal::repair(d.path(), 0) {
                            return format!("err:repair:{e}");
                        }
                    }
                    if let Err(e) = wal::append_session(d.path(), &[new.clone()]) {
                        return format!("err:{e}");
                    }
                    let (got, _) = wal::read_all(&seg(d.path()));
                    // expected: all records wholly before the cut, then the new one
                    let mut m = 0;
                    let mut expect: Vec<Vec<u8>> = vec![];
                    // records wholly before `off` are exactly those the truncated file still holds
                    // (computed from the implementation-independent layout of the *written* file)
                    let _ = &mut m;
                    let mut pos = 0usize;
                    let mut o = 0usize;
                    for r in &recs {
                        let (_, no, np) = layout(o, r.len(), pos);
                        // note: sessions resume at len mod B, which `layout` chaining reproduces
                        // only when block offsets coincide; use the real file length instead
                        o = no;
                        pos = np;
                        if pos <= off {
                            expect.push(r.clone());
                        }
                    }
                    expect.push(new);
                    format!("k={} exact={}", got.len(), if got == expect { "yes" } else { "no" })
                }
                _ => "bad-op".into(),
            }
        }));
        match res {
            Ok(s) => writeln!(out, "{s}").unwrap(),
            Err(_) => writeln!(out, "PANIC").unwrap(),
        }
    }
    out.flush().unwrap();
    0
}
