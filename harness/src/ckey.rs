//! Per-key compaction (C01 / C06 / C10): exhaustive small inputs for the real `CompactionIterator`.
use crate::util::*;
use crate::Args;
use std::io::Write;
use surrealkv::verif::compaction::{compact, Ver};

const KINDS: [u8; 4] = [2, 0, 1, 6]; // set, delete, soft delete, replace

pub fn gen(a: &Args) -> i32 {
    let mut out = std::io::BufWriter::new(std::fs::File::create(&a.out).expect("out"));
    let mut st = Stats::default();
    let maxn = if a.thorough { 4 } else { 3 };
    let versioning_on = a.extra.get("versioning").map(|s| s == "1").unwrap_or(false);
    let cfgs: Vec<(u8, u8, u64, u64)> = if versioning_on {
        vec![(0, 1, 0, 20), (1, 1, 0, 20), (0, 1, 3, 9), (1, 1, 3, 9)]
    } else {
        vec![(0, 0, 0, 20), (1, 0, 0, 20)]
    };
    let mut case = 0u64;
    for n in 1..=maxn {
        let total = 4usize.pow(n as u32);
        for code in 0..total {
            // versions newest first: seqs 2n, 2n-2, .., 2 ; ts = seq
            let mut c = code;
            let mut vers: Vec<String> = vec![];
            for i in 0..n {
                let k = KINDS[c % 4];
                c /= 4;
                let seq = 2 * (n - i);
                vers.push(format!("{seq}:{k}:{seq}"));
            }
            if a.cases > 0 && case >= a.cases {
                break;
            }
            writeln!(out, "case {case}").unwrap();
            case += 1;
            let top = 2 * n + 1; // snapshots among 1..=2n+1
            for mask in 0u32..(1u32 << top) {
                let snaps: Vec<String> = (0..top).filter(|b| mask & (1 << b) != 0).map(|b| (b + 1).to_string()).collect();
                let sn = if snaps.is_empty() { "-".to_string() } else { snaps.join(",") };
                for (b, v, r, now) in &cfgs {
                    writeln!(out, "compact {b} {v} {r} {now} {sn} {}", vers.join(",")).unwrap();
                    st.bump("lines");
                }
            }
        }
    }
    out.flush().unwrap();
    if !a.stats.is_empty() {
        std::fs::write(&a.stats, st.to_json()).unwrap();
    }
    0
}

pub fn exec(a: &Args) -> i32 {
    let text = std::fs::read_to_string(&a.ops).expect("ops");
    let mut out = std::io::BufWriter::new(std::fs::File::create(&a.out).expect("out"));
    for line in text.lines() {
        let w: Vec<&str> = line.split_whitespace().collect();
        let res: String = match w.first().copied() {
            Some("case") => "-".into(),
            Some("compact") => {
                let bottom = w[1] == "1";
                let versioning = w[2] == "1";
                let retention: u64 = w[3].parse().unwrap();
                let now: u64 = w[4].parse().unwrap();
                let snaps: Vec<u64> = if w[5] == "-" { vec![] } else { w[5].split(',').map(|s| s.parse().unwrap()).collect() };
                let mut srcs: Vec<Vec<Ver>> = vec![vec![], vec![]];
                if w[6] != "-" {
                    for (i, t) in w[6].split(',').enumerate() {
                        let p: Vec<&str> = t.split(':').collect();
                        let seq: u64 = p[0].parse().unwrap();
                        let kind: u8 = p[1].parse().unwrap();
                        let ts: u64 = p[2].parse().unwrap();
                        let val = if kind == 0 || kind == 1 { vec![] } else { format!("v{seq}").into_bytes() };
                        // spread the versions of the key over two sources
                        srcs[i % 2].push((b"k".to_vec(), seq, kind, ts, val));
                    }
                }
                match std::panic::catch_unwind(|| compact(&srcs, bottom, versioning, retention, now, snaps)) {
                    Ok(Ok(o)) => {
                        if o.is_empty() {
                            "-".into()
                        } else {
                            o.iter().map(|x| x.1.to_string()).collect::<Vec<_>>().join(",")
                        }
                    }
                    Ok(Err(e)) => format!("err:{}", e.replace(' ', "_")),
                    Err(_) => "PANIC".into(),
                }
            }
            _ => "bad-op".into(),
        };
        writeln!(out, "{res}").unwrap();
    }
    out.flush().unwrap();
    0
}
