//! C19: one live instance per directory.  Openers are threads of this process (whose `open` /
//! `close` calls can be paused at yield points while other openers try) and child processes
//! (clean close, exit without close, SIGKILL).  Every refused open is checked for byte identity of
//! the whole directory; every call reports the trace of lock / data events seen on its thread.
use crate::rng::Rng;
use crate::util::*;
use crate::Args;
use std::cell::Cell;
use std::collections::BTreeMap;
use std::io::{BufRead, BufReader, Write};
use std::path::{Path, PathBuf};
use std::process::{Child, ChildStdin, ChildStdout, Command, Stdio};
use std::sync::{Arc, Condvar, Mutex};
use std::time::{Duration, Instant};
use surrealkv::{Options, Tree, TreeBuilder, WalRecoveryMode};

const OPEN_PTS: &[&str] = &["open.locked", "open.manifest_loaded", "open.recovered"];
const CLOSE_PTS: &[&str] = &["close.wal_closed", "close.wal_cleaned", "close.dirs_synced"];

pub fn gen(a: &Args) -> i32 {
    let mut out = std::io::BufWriter::new(std::fs::File::create(&a.out).expect("out"));
    let mut st = Stats::default();
    for case in 0..a.cases {
        let mut r = Rng::for_case(a.seed, case);
        let vlog = r.chance(1, 4) as u8;
        writeln!(out, "case {case} {vlog}").unwrap();
        // generator-side picture of who is what, to produce mostly meaningful operations
        #[derive(Clone, Copy, PartialEq)]
        enum G {
            None,
            Open,
            PausedOpen,
            PausedClose,
            Child,
        }
        let mut g = [G::None; 4];
        let mut next_v = 1u64;
        let nops = r.range(6, if a.thorough { 40 } else { 22 });
        for _ in 0..nops {
            let mut x = r.below(4) as usize;
            let owner = (0..4).find(|&i| g[i] != G::None);
            // now and then, while nobody is live: damage the commit log, try to open (fails after the lock was
            // taken), repair, and carry on
            if owner.is_none() && next_v > 1 && r.chance(1, 6) {
                writeln!(out, "damage").unwrap();
                for _ in 0..r.range(1, 3) {
                    let y = r.below(4);
                    match r.below(4) {
                        0 => writeln!(out, "spawn {y}").unwrap(),
                        1 => writeln!(out, "open {y}").unwrap(),
                        _ => {
                            let p = *r.pick(OPEN_PTS);
                            writeln!(out, "open {y} @{p}").unwrap();
                            if p != "open.recovered" {
                                // paused while holding the lock: another attempt is refused, then the first one fails
                                writeln!(out, "open {} ", (y + 1) % 4).unwrap();
                                writeln!(out, "resume {y}").unwrap();
                            }
                        }
                    }
                    st.bump("failed_open");
                }
                writeln!(out, "repair").unwrap();
                continue;
            }
            // while somebody is live, two thirds of the operations are the owner's own
            if let Some(o) = owner {
                if g[x] == G::None && !r.chance(1, 3) {
                    x = o;
                }
            }
            let y = r.below(100);
            match g[x] {
                G::None => {
                    // an open attempt: refused when somebody is live
                    if y < 25 {
                        writeln!(out, "spawn {x}").unwrap();
                        st.bump(if owner.is_some() { "spawn_refused" } else { "spawn_ok" });
                        if owner.is_none() {
                            g[x] = G::Child;
                        }
                    } else if y < 55 {
                        let p = *r.pick(OPEN_PTS);
                        writeln!(out, "open {x} @{p}").unwrap();
                        st.bump(if owner.is_some() { "open_refused" } else { "open_paused" });
                        if owner.is_none() {
                            g[x] = G::PausedOpen;
                        }
                    } else {
                        writeln!(out, "open {x}").unwrap();
                        st.bump(if owner.is_some() { "open_refused" } else { "open_ok" });
                        if let Some(o) = owner {
                            st.bump(match g[o] {
                                G::PausedOpen => "refused_while_owner_opening",
                                G::PausedClose => "refused_while_owner_closing",
                                G::Child => "refused_by_other_process",
                                _ => "refused_while_owner_open",
                            });
                        } else {
                            g[x] = G::Open;
                        }
                    }
                }
                G::Open => {
                    if y < 30 {
                        let k = r.below(3);
                        writeln!(out, "put {x} {k} {next_v}").unwrap();
                        next_v += 1;
                        st.bump("put");
                    } else if y < 45 {
                        writeln!(out, "get {x} {}", r.below(3)).unwrap();
                        st.bump("get");
                    } else if y < 65 {
                        writeln!(out, "close {x}").unwrap();
                        g[x] = G::None;
                        st.bump("close");
                    } else if y < 88 {
                        let p = *r.pick(CLOSE_PTS);
                        writeln!(out, "close {x} @{p}").unwrap();
                        g[x] = G::PausedClose;
                        st.bump("close_paused");
                    } else {
                        writeln!(out, "drop {x}").unwrap();
                        g[x] = G::None;
                        st.bump("drop");
                    }
                }
                G::PausedOpen => {
                    writeln!(out, "resume {x}").unwrap();
                    g[x] = G::Open;
                    st.bump("resume_open");
                }
                G::PausedClose => {
                    writeln!(out, "resume {x}").unwrap();
                    g[x] = G::None;
                    st.bump("resume_close");
                }
                G::Child => {
                    let w = if y < 35 {
                        "pclose"
                    } else if y < 60 {
                        "pexit"
                    } else {
                        "kill"
                    };
                    writeln!(out, "{w} {x}").unwrap();
                    g[x] = G::None;
                    st.bump(w);
                }
            }
        }
    }
    if !a.stats.is_empty() {
        std::fs::write(&a.stats, st.to_json()).unwrap();
    }
    0
}

// ---------------------------------------------------------------------------------------------

thread_local! {
    static CUR: Cell<Option<usize>> = const { Cell::new(None) };
}

#[derive(Default)]
struct Slot {
    events: Vec<&'static str>,
    pause_at: Option<String>,
    paused: bool,
    go: bool,
}

struct Ctl {
    m: Mutex<Vec<Slot>>,
    cv: Condvar,
}

fn letter(name: &str) -> &'static str {
    match name {
        "lock.acquired" => "A",
        "lock.released" => "R",
        "open.locked" => "",
        _ => "T",
    }
}

/// collapse the per-call event list into the trace string of the protocol.  `lock.released` fires on
/// every `release()` call, also the no-op ones: only the first one after an acquire (or the first of
/// a close) counts, which is what `held` tracks.
fn trace(ev: &[&'static str], held: &mut bool) -> String {
    let mut v: Vec<&str> = vec![];
    for e in ev {
        let l = letter(e);
        if l.is_empty() {
            continue;
        }
        if l == "A" {
            *held = true;
        }
        if l == "R" {
            if !*held {
                continue;
            }
            *held = false;
        }
        if v.last() != Some(&l) {
            v.push(l);
        }
    }
    if v.is_empty() {
        "-".into()
    } else {
        v.join(".")
    }
}

fn snapshot_dir(root: &Path) -> BTreeMap<String, Vec<u8>> {
    fn walk(root: &Path, p: &Path, out: &mut BTreeMap<String, Vec<u8>>) {
        if let Ok(rd) = std::fs::read_dir(p) {
            for e in rd.flatten() {
                let path = e.path();
                let rel = path.strip_prefix(root).unwrap().to_string_lossy().to_string();
                if path.is_dir() {
                    out.insert(format!("{rel}/"), vec![]);
                    walk(root, &path, out);
                } else {
                    out.insert(rel, std::fs::read(&path).unwrap_or_default());
                }
            }
        }
    }
    let mut m = BTreeMap::new();
    walk(root, root, &mut m);
    m
}

fn diff_dir(a: &BTreeMap<String, Vec<u8>>, b: &BTreeMap<String, Vec<u8>>) -> Option<String> {
    for (k, v) in a {
        if b.get(k) != Some(v) {
            return Some(k.clone());
        }
    }
    for k in b.keys() {
        if !a.contains_key(k) {
            return Some(k.clone());
        }
    }
    None
}

fn mk_opts(dir: &Path, vlog: bool) -> Options {
    let mut o = Options::new();
    o.path = dir.to_path_buf();
    // commits stay in the commit log (no flush on close), and a damaged log fails the open
    o.flush_on_close = false;
    o.wal_recovery_mode = WalRecoveryMode::AbsoluteConsistency;
    if vlog {
        o.enable_vlog = true;
        o.vlog_value_threshold = 0;
    }
    o
}

/// waits until nobody holds the directory lock (a failed open releases it as soon as its background tasks have gone)
fn wait_lock_free(dir: &Path) -> bool {
    use fs2::FileExt;
    let p = dir.join("LOCK");
    let t0 = Instant::now();
    loop {
        match std::fs::OpenOptions::new().read(true).write(true).open(&p) {
            Err(_) => return true, // no LOCK file at all
            Ok(f) => {
                if f.try_lock_exclusive().is_ok() {
                    let _ = f.unlock();
                    return true;
                }
            }
        }
        if t0.elapsed() > Duration::from_secs(3) {
            return false;
        }
        std::thread::sleep(Duration::from_millis(2));
    }
}

fn first_wal(dir: &Path) -> Option<PathBuf> {
    let mut v: Vec<PathBuf> = std::fs::read_dir(dir.join("wal")).ok()?.flatten().map(|e| e.path()).filter(|p| p.extension().map(|x| x == "wal").unwrap_or(false) && std::fs::metadata(p).map(|m| m.len() > 16).unwrap_or(false)).collect();
    v.sort();
    v.into_iter().next()
}

fn is_locked(e: &surrealkv::Error) -> bool {
    format!("{e:?}").contains("already locked")
}

enum Call {
    Open,
    Close(Tree),
}
enum Ret {
    Opened(Result<Tree, String>),
    Closed(Tree, Result<(), String>),
}

struct Opener {
    tree: Option<Tree>,
    thread: Option<std::thread::JoinHandle<Ret>>,
    child: Option<(Child, ChildStdin, BufReader<ChildStdout>)>,
    held: bool,
    seen: usize, // events of the current call already reported
    before: Option<BTreeMap<String, Vec<u8>>>,
    grave: Vec<Tree>, // closed handles: dropping one spawns another close(), done under control at teardown
}

struct World {
    dir: tempfile::TempDir,
    vlog: bool,
    damaged: Option<(PathBuf, Vec<u8>)>, // commit-log segment with its original bytes
    ops: Vec<Opener>,
}

fn start_call(ctl: &Arc<Ctl>, rt: &tokio::runtime::Handle, x: usize, call: Call, pause: Option<String>, path: PathBuf, vlog: bool) -> std::thread::JoinHandle<Ret> {
    {
        let mut g = ctl.m.lock().unwrap();
        g[x] = Slot { events: vec![], pause_at: pause, paused: false, go: false };
    }
    let rt = rt.clone();
    std::thread::spawn(move || {
        CUR.with(|c| c.set(Some(x)));
        let _g = rt.enter();
        match call {
            Call::Open => Ret::Opened(TreeBuilder::with_options(mk_opts(&path, vlog)).build().map_err(|e| if is_locked(&e) { "locked".to_string() } else { err_name(&e) })),
            Call::Close(t) => {
                let r = rt.block_on(t.close()).map_err(|e| err_name(&e));
                Ret::Closed(t, r)
            }
        }
    })
}

/// Drop a store handle the way an application would — `Drop for Tree` spawns `close()` on the
/// current runtime — on a thread of its own with a current-thread runtime, so that the spawned close
/// runs on that thread (events attributed to opener x) and we know when it has finished.
fn drop_and_wait(ctl: &Arc<Ctl>, x: usize, t: Tree) -> Result<(), String> {
    {
        let mut g = ctl.m.lock().unwrap();
        g[x] = Slot::default();
    }
    let ctl2 = ctl.clone();
    let h = std::thread::spawn(move || {
        CUR.with(|c| c.set(Some(x)));
        let rt = tokio::runtime::Builder::new_current_thread().enable_all().build().unwrap();
        rt.block_on(async move {
            drop(t);
            let t0 = Instant::now();
            loop {
                tokio::time::sleep(Duration::from_micros(300)).await;
                if ctl2.m.lock().unwrap()[x].events.contains(&"lock.released") {
                    return Ok(());
                }
                if t0.elapsed() > Duration::from_secs(10) {
                    return Err("drop-never-released".to_string());
                }
            }
        })
    });
    h.join().unwrap_or_else(|_| Err("PANIC".into()))
}

/// wait until the call thread of opener x is paused at its pause point or has finished
fn wait_call(ctl: &Arc<Ctl>, o: &mut Opener, x: usize) -> Option<Ret> {
    let t0 = Instant::now();
    loop {
        if o.thread.as_ref().map(|t| t.is_finished()).unwrap_or(false) {
            return Some(o.thread.take().unwrap().join().unwrap_or_else(|_| Ret::Opened(Err("PANIC".into()))));
        }
        if ctl.m.lock().unwrap()[x].paused {
            return None;
        }
        if t0.elapsed() > Duration::from_secs(20) {
            return Some(Ret::Opened(Err("HANG".into())));
        }
        std::thread::sleep(Duration::from_micros(200));
    }
}

fn seg_trace(ctl: &Arc<Ctl>, o: &mut Opener, x: usize) -> String {
    let g = ctl.m.lock().unwrap();
    let ev = &g[x].events[o.seen..];
    let s = trace(ev, &mut o.held);
    o.seen = g[x].events.len();
    s
}

fn child_cmd(c: &mut (Child, ChildStdin, BufReader<ChildStdout>), line: &str) -> String {
    if writeln!(c.1, "{line}").is_err() {
        return "child-gone".into();
    }
    let _ = c.1.flush();
    let mut s = String::new();
    match c.2.read_line(&mut s) {
        Ok(0) | Err(_) => "child-gone".into(),
        Ok(_) => s.trim().to_string(),
    }
}

pub fn exec(a: &Args) -> i32 {
    let rt = tokio::runtime::Builder::new_multi_thread().worker_threads(2).enable_all().build().unwrap();
    let _g = rt.enter();
    let ctl = Arc::new(Ctl { m: Mutex::new((0..8).map(|_| Slot::default()).collect()), cv: Condvar::new() });
    {
        let ctl = ctl.clone();
        surrealkv::verif::set_yield_handler(Some(Arc::new(move |name: &'static str| {
            let Some(x) = CUR.with(|c| c.get()) else { return };
            let mut g = ctl.m.lock().unwrap();
            g[x].events.push(name);
            if g[x].pause_at.as_deref() == Some(name) {
                g[x].pause_at = None;
                g[x].paused = true;
                g[x].go = false;
                ctl.cv.notify_all();
                while !g[x].go {
                    g = ctl.cv.wait(g).unwrap();
                }
            }
        })));
    }
    let exe = std::env::current_exe().expect("exe");
    let text = std::fs::read_to_string(&a.ops).expect("ops");
    let mut out = std::io::BufWriter::new(std::fs::File::create(&a.out).expect("out"));
    let mut w: Option<World> = None;
    let teardown = |w: &mut Option<World>, ctl: &Arc<Ctl>| {
        if let Some(mut wd) = w.take() {
            for (x, o) in wd.ops.iter_mut().enumerate() {
                if o.thread.is_some() {
                    {
                        let mut g = ctl.m.lock().unwrap();
                        g[x].go = true;
                        g[x].paused = false;
                        ctl.cv.notify_all();
                    }
                    if let Some(Ret::Opened(Ok(t))) | Some(Ret::Closed(t, _)) = wait_call(ctl, o, x) {
                        o.tree = Some(t);
                    }
                }
                if let Some(mut c) = o.child.take() {
                    let _ = c.0.kill();
                    let _ = c.0.wait();
                }
            }
            // explicit closes, in sequence, so nothing of this case is still running in the next
            for (x, o) in wd.ops.iter_mut().enumerate() {
                if let Some(t) = o.tree.take() {
                    let _ = rt.block_on(t.close());
                    o.grave.push(t);
                }
                for t in o.grave.drain(..) {
                    let _ = drop_and_wait(ctl, x, t);
                }
            }
        }
    };
    for line in text.lines() {
        let ws: Vec<&str> = line.split_whitespace().collect();
        let res: String = (|| -> String {
            match ws.first().copied() {
                Some("case") => {
                    teardown(&mut w, &ctl);
                    let vlog = ws.get(2).copied() == Some("1");
                    w = Some(World {
                        dir: tempfile::tempdir().expect("tempdir"),
                        vlog,
                        damaged: None,
                        ops: (0..8).map(|_| Opener { tree: None, thread: None, child: None, held: false, seen: 0, before: None, grave: vec![] }).collect(),
                    });
                    "-".into()
                }
                Some(op) => {
                    let Some(wd) = w.as_mut() else { return "bad-op".into() };
                    if op == "damage" {
                        if wd.damaged.is_some() || wd.ops.iter().any(|o| o.tree.is_some() || o.thread.is_some() || o.child.is_some()) {
                            return "r=skip".into();
                        }
                        let Some(p) = first_wal(wd.dir.path()) else { return "r=skip".into() };
                        let orig = std::fs::read(&p).expect("read wal");
                        let mut bad = orig.clone();
                        bad[10] ^= 0x40;
                        std::fs::write(&p, &bad).expect("write wal");
                        wd.damaged = Some((p, orig));
                        return "r=ok".into();
                    }
                    if op == "repair" {
                        if let Some((p, orig)) = wd.damaged.take() {
                            std::fs::write(&p, &orig).expect("restore wal");
                        }
                        return "r=ok".into();
                    }
                    let damaged = wd.damaged.is_some();
                    let Some(x) = ws.get(1).and_then(|s| s.parse::<usize>().ok()).filter(|x| *x < 8) else { return "bad-op".into() };
                    let path = wd.dir.path().to_path_buf();
                    let vlog = wd.vlog;
                    let pause = ws.get(2).map(|p| p.trim_start_matches('@').to_string());
                    let o = &mut wd.ops[x];
                    match op {
                        "open" => {
                            if o.tree.is_some() || o.thread.is_some() || o.child.is_some() {
                                return "bad-op".into();
                            }
                            o.before = Some(snapshot_dir(&path));
                            o.seen = 0;
                            o.held = false;
                            o.thread = Some(start_call(&ctl, rt.handle(), x, Call::Open, pause, path.clone(), vlog));
                            match wait_call(&ctl, o, x) {
                                None => format!("r=paused tr={}", seg_trace(&ctl, o, x)),
                                Some(Ret::Opened(Ok(t))) => {
                                    o.tree = Some(t);
                                    format!("r=ok tr={}", seg_trace(&ctl, o, x))
                                }
                                Some(Ret::Opened(Err(e))) if e == "locked" => {
                                    let after = snapshot_dir(&path);
                                    match diff_dir(o.before.as_ref().unwrap(), &after) {
                                        None => "r=locked pure=1".into(),
                                        Some(f) => format!("r=locked pure=0 touched={f}"),
                                    }
                                }
                                Some(Ret::Opened(Err(e))) if damaged => {
                                    let _ = e;
                                    format!("r=failed free={}", wait_lock_free(&path) as u8)
                                }
                                Some(Ret::Opened(Err(e))) => format!("r=err:{e}"),
                                Some(Ret::Closed(..)) => "r=err:internal".into(),
                            }
                        }
                        "close" => {
                            let Some(t) = o.tree.take() else { return "bad-op".into() };
                            o.seen = 0;
                            // `held` stays as it is: the lock is held since the open
                            o.thread = Some(start_call(&ctl, rt.handle(), x, Call::Close(t), pause, path.clone(), vlog));
                            match wait_call(&ctl, o, x) {
                                None => format!("r=paused tr={}", seg_trace(&ctl, o, x)),
                                Some(Ret::Closed(t, Ok(()))) => {
                                    o.grave.push(t);
                                    format!("r=ok tr={}", seg_trace(&ctl, o, x))
                                }
                                Some(Ret::Closed(t, Err(e))) => {
                                    o.grave.push(t);
                                    format!("r=err:{e}")
                                }
                                Some(Ret::Opened(Err(e))) => format!("r=err:{e}"),
                                Some(Ret::Opened(Ok(_))) => "r=err:internal".into(),
                            }
                        }
                        "resume" => {
                            if o.thread.is_none() {
                                return "bad-op".into();
                            }
                            {
                                let mut g = ctl.m.lock().unwrap();
                                g[x].go = true;
                                g[x].paused = false;
                                ctl.cv.notify_all();
                            }
                            match wait_call(&ctl, o, x) {
                                None => "r=err:paused-again".into(),
                                Some(Ret::Opened(Ok(t))) => {
                                    o.tree = Some(t);
                                    format!("r=ok tr={}", seg_trace(&ctl, o, x))
                                }
                                Some(Ret::Closed(t, Ok(()))) => {
                                    o.grave.push(t);
                                    format!("r=ok tr={}", seg_trace(&ctl, o, x))
                                }
                                Some(Ret::Closed(t, Err(e))) => {
                                    o.grave.push(t);
                                    format!("r=err:{e}")
                                }
                                Some(Ret::Opened(Err(_))) if damaged => format!("r=failed free={}", wait_lock_free(&path) as u8),
                                Some(Ret::Opened(Err(e))) => format!("r=err:{e}"),
                            }
                        }
                        "drop" => {
                            let Some(t) = o.tree.take() else { return "bad-op".into() };
                            o.seen = 0;
                            match drop_and_wait(&ctl, x, t) {
                                Ok(()) => format!("r=ok tr={}", seg_trace(&ctl, o, x)),
                                Err(e) => format!("r=err:{e}"),
                            }
                        }
                        "spawn" => {
                            if o.tree.is_some() || o.thread.is_some() || o.child.is_some() {
                                return "bad-op".into();
                            }
                            let before = snapshot_dir(&path);
                            let mut ch = Command::new(&exe)
                                .args(["c19", "child", "--dir", path.to_str().unwrap(), "--vlog", if vlog { "1" } else { "0" }])
                                .stdin(Stdio::piped())
                                .stdout(Stdio::piped())
                                .stderr(Stdio::null())
                                .spawn()
                                .expect("spawn child");
                            let si = ch.stdin.take().unwrap();
                            let so = BufReader::new(ch.stdout.take().unwrap());
                            let mut c = (ch, si, so);
                            let mut s = String::new();
                            let _ = c.2.read_line(&mut s);
                            match s.trim() {
                                "ok" => {
                                    o.child = Some(c);
                                    "r=ok".into()
                                }
                                "locked" => {
                                    let _ = c.0.wait();
                                    let after = snapshot_dir(&path);
                                    match diff_dir(&before, &after) {
                                        None => "r=locked pure=1".into(),
                                        Some(f) => format!("r=locked pure=0 touched={f}"),
                                    }
                                }
                                other => {
                                    let _ = c.0.kill();
                                    let _ = c.0.wait();
                                    if damaged {
                                        format!("r=failed free={}", wait_lock_free(&path) as u8)
                                    } else {
                                        format!("r=err:{other}")
                                    }
                                }
                            }
                        }
                        "pclose" | "pexit" | "kill" => {
                            let Some(mut c) = o.child.take() else { return "bad-op".into() };
                            let r = match op {
                                "pclose" => child_cmd(&mut c, "close"),
                                "pexit" => {
                                    let _ = writeln!(c.1, "exit");
                                    let _ = c.1.flush();
                                    "ok".into()
                                }
                                _ => {
                                    let _ = c.0.kill();
                                    "ok".into()
                                }
                            };
                            let _ = c.0.wait();
                            format!("r={r}")
                        }
                        "put" => {
                            let (Some(k), Some(v)) = (ws.get(2), ws.get(3)) else { return "bad-op".into() };
                            let Some(t) = o.tree.as_ref() else { return "bad-op".into() };
                            let r = (|| -> Result<(), surrealkv::Error> {
                                let mut tx = t.begin()?;
                                tx.set(k.as_bytes(), v.as_bytes())?;
                                rt.block_on(tx.commit())
                            })();
                            match r {
                                Ok(()) => "r=ok".into(),
                                Err(e) => format!("r=err:{}", err_name(&e)),
                            }
                        }
                        "get" => {
                            let Some(k) = ws.get(2) else { return "bad-op".into() };
                            let Some(t) = o.tree.as_ref() else { return "bad-op".into() };
                            let r = (|| -> Result<Option<Vec<u8>>, surrealkv::Error> {
                                let tx = t.begin()?;
                                tx.get(k.as_bytes())
                            })();
                            match r {
                                Ok(Some(v)) => format!("v={}", String::from_utf8_lossy(&v)),
                                Ok(None) => "v=none".into(),
                                Err(e) => format!("r=err:{}", err_name(&e)),
                            }
                        }
                        _ => "bad-op".into(),
                    }
                }
                None => "bad-op".into(),
            }
        })();
        writeln!(out, "{res}").unwrap();
    }
    teardown(&mut w, &ctl);
    out.flush().unwrap();
    surrealkv::verif::set_yield_handler(None);
    0
}

/// child process: open the store, report, then obey commands on stdin
pub fn child(a: &Args) -> i32 {
    let rt = tokio::runtime::Builder::new_multi_thread().worker_threads(2).enable_all().build().unwrap();
    let _g = rt.enter();
    let dir = PathBuf::from(a.extra.get("dir").expect("--dir"));
    let vlog = a.extra.get("vlog").map(|s| s == "1").unwrap_or(false);
    let so = std::io::stdout();
    let say = |s: &str| {
        let mut l = so.lock();
        let _ = writeln!(l, "{s}");
        let _ = l.flush();
    };
    let t = match TreeBuilder::with_options(mk_opts(&dir, vlog)).build() {
        Ok(t) => t,
        Err(e) => {
            say(&if is_locked(&e) { "locked".to_string() } else { format!("err:{}", err_name(&e)) });
            return 0;
        }
    };
    say("ok");
    let si = std::io::stdin();
    for line in si.lock().lines() {
        let Ok(line) = line else { break };
        match line.trim() {
            "close" => {
                let r = rt.block_on(t.close());
                say(&match r {
                    Ok(()) => "ok".to_string(),
                    Err(e) => format!("err:{}", err_name(&e)),
                });
                std::mem::forget(t);
                std::process::exit(0);
            }
            "exit" => std::process::exit(0),
            _ => say("bad-op"),
        }
    }
    // stdin closed: die without closing
    std::process::exit(0);
}
