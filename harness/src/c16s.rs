//! C16 (store level): a database directory built by a generated workload (tables on one or two
//! levels, a live commit-log segment holding unflushed commits, value-log files when enabled) is
//! copied while the store is open; each alteration flips one bit / overwrites one byte of one file of
//! that image, the image is opened with the real `TreeBuilder` (WAL mode AbsoluteConsistency, value
//! log verification Full) and every key is read back by `get` and by a full scan.
use crate::rng::Rng;
use crate::util::*;
use crate::Args;
use std::io::Write;
use std::path::{Path, PathBuf};
use surrealkv::{LSMIterator, Options, Tree, TreeBuilder, VLogChecksumLevel, WalRecoveryMode};

pub fn gen(a: &Args) -> i32 {
    let mut out = std::io::BufWriter::new(std::fs::File::create(&a.out).expect("out"));
    let mut st = Stats::default();
    for case in 0..a.cases {
        let mut r = Rng::for_case(a.seed, case);
        let vlog = r.chance(1, 2) as u8;
        writeln!(out, "case {case} {vlog}").unwrap();
        st.bump(if vlog == 1 { "vlog_on" } else { "vlog_off" });
        let ntx = r.range(4, 10);
        let mut vctr = 0;
        for i in 0..ntx {
            let n = r.range(1, 3);
            let mut ws = vec![];
            for _ in 0..n {
                let k = format!("k{}", r.below(6));
                if r.chance(1, 6) {
                    ws.push(format!("{}=DEL", hex(k.as_bytes())));
                } else {
                    vctr += 1;
                    let mut v = format!("v{vctr}-").into_bytes();
                    if r.chance(1, 2) {
                        v.resize(r.range(80, 300) as usize, b'a' + (vctr % 20) as u8);
                    }
                    ws.push(format!("{}={}", hex(k.as_bytes()), hex(&v)));
                }
            }
            writeln!(out, "txn {}", ws.join(" ")).unwrap();
            // flush in the first two thirds only, so that the commit log of the image is not empty
            if i < ntx * 2 / 3 && r.chance(1, 3) {
                writeln!(out, "flush").unwrap();
                st.bump("flush");
            }
        }
        writeln!(out, "image").unwrap();
        let nalt = if a.thorough { 1200 } else { 160 };
        for _ in 0..nalt {
            let kind = *r.pick(&["sst", "sst", "wal", "wal", "vlog", "manifest"]);
            if kind == "vlog" && vlog == 0 {
                continue;
            }
            let ppm = match r.below(6) {
                0 => r.below(3000),            // file header
                1 => 1_000_000 - 1 - r.below(60_000), // file end (footer / last record)
                _ => r.below(1_000_000),
            };
            if r.chance(1, 8) {
                writeln!(out, "alter {kind} {} {ppm} set {}", r.below(4), *r.pick(&[0u8, 0xff, 0x80])).unwrap();
            } else {
                writeln!(out, "alter {kind} {} {ppm} flip {}", r.below(4), r.below(8)).unwrap();
            }
            st.bump(&format!("alter_{kind}"));
        }
    }
    if !a.stats.is_empty() {
        std::fs::write(&a.stats, st.to_json()).unwrap();
    }
    0
}

fn mk_opts(p: &Path, vlog: bool) -> Options {
    let mut o = Options::new();
    o.path = p.to_path_buf();
    o.max_memtable_size = 1 << 20;
    o.wal_recovery_mode = WalRecoveryMode::AbsoluteConsistency;
    if vlog {
        o.enable_vlog = true;
        o.vlog_value_threshold = 64;
        o.vlog_max_file_size = 1024;
        o.vlog_checksum_verification = VLogChecksumLevel::Full;
    }
    o
}

fn copy_dir(src: &Path, dst: &Path) {
    std::fs::create_dir_all(dst).unwrap();
    for e in std::fs::read_dir(src).unwrap() {
        let e = e.unwrap();
        let p = e.path();
        let d = dst.join(e.file_name());
        if p.is_dir() {
            copy_dir(&p, &d);
        } else if e.file_name() != "LOCK" {
            let _ = std::fs::copy(&p, &d);
        }
    }
}

fn files_of(root: &Path, kind: &str) -> Vec<PathBuf> {
    let (sub, ext) = match kind {
        "sst" => ("sstables", "sst"),
        "wal" => ("wal", "wal"),
        "vlog" => ("vlog", "vlog"),
        _ => ("manifest", ""),
    };
    let mut v: Vec<PathBuf> = std::fs::read_dir(root.join(sub))
        .map(|rd| rd.flatten().map(|e| e.path()).filter(|p| p.is_file() && (ext.is_empty() || p.extension().map(|x| x == ext).unwrap_or(false))).collect())
        .unwrap_or_default();
    v.retain(|p| std::fs::metadata(p).map(|m| m.len() > 0).unwrap_or(false));
    v.sort();
    v
}

/// every key read twice by `get` (the second pass meets whatever the first one left in the caches),
/// then a full scan.  `None` = that read failed; a failed read is retried by the second pass, and the
/// scan runs whatever the gets did: the property constrains every read that *succeeds*.
fn read_all(rt: &tokio::runtime::Runtime, dir: &Path, vlog: bool, keys: &[Vec<u8>]) -> Result<Vec<Option<String>>, String> {
    let t: Tree = TreeBuilder::with_options(mk_opts(dir, vlog)).build().map_err(|e| format!("open:{}", err_name(&e)))?;
    let r = (|| -> Result<Vec<Option<String>>, String> {
        let mut out = vec![];
        let tx = t.begin().map_err(|e| format!("read:{}", err_name(&e)))?;
        for _pass in 0..2 {
            for k in keys {
                out.push(match tx.get(k) {
                    Err(_) => None,
                    Ok(None) => Some("none".to_string()),
                    Ok(Some(v)) => Some(hex(&v)),
                });
            }
        }
        let scan = (|| -> Result<Vec<String>, (Vec<String>, String)> {
            let mut items = vec![];
            macro_rules! tr {
                ($e:expr) => {
                    match $e {
                        Ok(x) => x,
                        Err(e) => return Err((items, format!("read:{}", err_name(&e)))),
                    }
                };
            }
            let mut it = tr!(tx.range(&b"\x00"[..], &b"\xff\xff"[..]));
            let mut ok = tr!(it.seek_first());
            while ok && it.valid() {
                let k = it.key().user_key().to_vec();
                let v = tr!(it.value());
                items.push(format!("{}={}", hex(&k), hex(&v)));
                ok = tr!(it.next());
                if items.len() > 1000 {
                    return Err((items, "read:runaway".into()));
                }
            }
            Ok(items)
        })();
        match scan {
            Ok(items) => {
                out.push(Some(format!("scan-complete:{}", items.len())));
                out.extend(items.into_iter().map(Some));
            }
            Err((items, _)) => {
                out.push(None);
                out.extend(items.into_iter().map(Some));
            }
        }
        Ok(out)
    })();
    let _ = rt.block_on(t.close());
    r
}

pub fn exec(a: &Args) -> i32 {
    let rt = tokio::runtime::Builder::new_multi_thread().worker_threads(2).enable_all().build().unwrap();
    let _g = rt.enter();
    let text = std::fs::read_to_string(&a.ops).expect("ops");
    let mut out = std::io::BufWriter::new(std::fs::File::create(&a.out).expect("out"));
    std::panic::set_hook(Box::new(|_| {}));
    let mut vlog = false;
    let mut live: Option<(tempfile::TempDir, Tree)> = None;
    let mut image: Option<(tempfile::TempDir, Vec<Option<String>>)> = None;
    let keys: Vec<Vec<u8>> = (0..7).map(|i| format!("k{i}").into_bytes()).collect();
    for line in text.lines() {
        let w: Vec<&str> = line.split_whitespace().collect();
        let res = std::panic::catch_unwind(std::panic::AssertUnwindSafe(|| -> String {
            match w.first().copied() {
                Some("case") => {
                    if let Some((_d, t)) = live.take() {
                        let _ = rt.block_on(t.close());
                    }
                    image = None;
                    vlog = w.get(2).copied() == Some("1");
                    let d = tempfile::tempdir().expect("tempdir");
                    match TreeBuilder::with_options(mk_opts(d.path(), vlog)).build() {
                        Ok(t) => {
                            live = Some((d, t));
                            "-".into()
                        }
                        Err(e) => format!("err:{}", err_name(&e)),
                    }
                }
                Some("txn") => {
                    let Some((_, t)) = live.as_ref() else { return "bad-op".into() };
                    let r = (|| -> Result<(), surrealkv::Error> {
                        let mut tx = t.begin()?;
                        for kv in &w[1..] {
                            let (k, v) = kv.split_once('=').unwrap();
                            if v == "DEL" {
                                tx.delete(unhex(k))?;
                            } else {
                                tx.set(unhex(k), unhex(v))?;
                            }
                        }
                        rt.block_on(tx.commit())
                    })();
                    match r {
                        Ok(()) => "ok".into(),
                        Err(e) => format!("err:{}", err_name(&e)),
                    }
                }
                Some("flush") => {
                    let Some((_, t)) = live.as_ref() else { return "bad-op".into() };
                    match surrealkv::verif::store::rotate(t).and_then(|_| surrealkv::verif::store::flush_immutables(t)) {
                        Ok(()) => "ok".into(),
                        Err(e) => format!("err:{}", e.replace(' ', "_")),
                    }
                }
                Some("image") => {
                    let Some((d, t)) = live.take() else { return "bad-op".into() };
                    // crash image: copied while the store is open, so the commit log still holds the unflushed commits
                    let img = tempfile::tempdir().expect("tempdir");
                    copy_dir(d.path(), img.path());
                    let _ = rt.block_on(t.close());
                    drop(d);
                    let probe = tempfile::tempdir().expect("tempdir");
                    copy_dir(img.path(), probe.path());
                    match read_all(&rt, probe.path(), vlog, &keys) {
                        Ok(ans) => {
                            let kinds: Vec<String> = ["sst", "wal", "vlog", "manifest"].iter().map(|k| format!("{k}={}", files_of(img.path(), k).len())).collect();
                            image = Some((img, ans));
                            format!("ok {}", kinds.join(" "))
                        }
                        Err(e) => format!("err:baseline:{e}"),
                    }
                }
                Some("alter") => {
                    let Some((img, ans)) = image.as_ref() else { return "bad-op".into() };
                    let kind = w[1];
                    let files = files_of(img.path(), kind);
                    if files.is_empty() {
                        return "skip".into();
                    }
                    let f = &files[w[2].parse::<usize>().unwrap_or(0) % files.len()];
                    let rel = f.strip_prefix(img.path()).unwrap().to_path_buf();
                    let scratch = tempfile::tempdir().expect("tempdir");
                    copy_dir(img.path(), scratch.path());
                    let target = scratch.path().join(&rel);
                    let mut b = std::fs::read(&target).expect("read target");
                    let off = (b.len() as u64 * w[3].parse::<u64>().unwrap_or(0) / 1_000_000) as usize;
                    let off = off.min(b.len() - 1);
                    let v: u8 = w[5].parse().unwrap_or(0);
                    if w[4] == "flip" {
                        b[off] ^= 1 << (v % 8);
                    } else {
                        if b[off] == v {
                            return "same".into();
                        }
                        b[off] = v;
                    }
                    std::fs::write(&target, &b).expect("write target");
                    let tag = if kind == "manifest" { " H=manifest" } else { "" };
                    match read_all(&rt, scratch.path(), vlog, &keys) {
                        Err(e) if e.starts_with("open:") => format!("err-open{tag}"),
                        Err(_) => format!("err-read{tag}"),
                        Ok(a2) => {
                            // a read that succeeded must give the baseline answer; a scan cut short by an error
                            // must have produced a prefix of the baseline scan
                            let bad = a2.iter().zip(ans.iter()).position(|(x, y)| x.is_some() && x != y).or_else(|| {
                                if a2.len() > ans.len() { Some(ans.len()) } else { None }
                            });
                            let complete = a2.iter().all(|x| x.is_some());
                            match bad {
                                None if complete && a2.len() == ans.len() => format!("same{tag}"),
                                None => format!("err-read{tag}"),
                                Some(i) => format!(
                                    "DIFFERENT:{}:{}@{}:item{}:{}->{}{tag}",
                                    kind,
                                    rel.display(),
                                    off,
                                    i,
                                    ans.get(i).and_then(|s| s.as_ref()).map(|s| s.chars().take(24).collect::<String>()).unwrap_or("-".into()),
                                    a2.get(i).and_then(|s| s.as_ref()).map(|s| s.chars().take(24).collect::<String>()).unwrap_or("-".into())
                                ),
                            }
                        }
                    }
                }
                _ => "bad-op".into(),
            }
        }));
        let res = res.unwrap_or_else(|p| {
            let msg = p.downcast_ref::<String>().cloned().or_else(|| p.downcast_ref::<&str>().map(|s| s.to_string())).unwrap_or_default();
            format!("PANIC:{}", msg.replace(' ', "_").chars().take(70).collect::<String>())
        });
        writeln!(out, "{res}").unwrap();
    }
    if let Some((_d, t)) = live.take() {
        let _ = rt.block_on(t.close());
    }
    out.flush().unwrap();
    if std::env::var("SKV_FD_DEBUG").is_ok() {
        let mut kinds: std::collections::BTreeMap<String, usize> = Default::default();
        if let Ok(rd) = std::fs::read_dir("/proc/self/fd") {
            for e in rd.flatten() {
                let t = std::fs::read_link(e.path()).map(|p| p.to_string_lossy().to_string()).unwrap_or_default();
                let k = t.rsplit('/').next().unwrap_or("").rsplit('.').next().unwrap_or("").to_string();
                *kinds.entry(k).or_insert(0) += 1;
            }
        }
        eprintln!("open fds by suffix: {kinds:?}");
    }
    0
}
