//! C04 — first committer wins: the real `CommitOracle` driven with pipeline-shaped operation
//! strings (check + seq allocation + publish as one step; rollback of failed batches; GC bursts).
use crate::rng::Rng;
use crate::util::*;
use crate::Args;
use std::collections::HashMap;
use std::io::Write;
use surrealkv::verif::oracle::Oracle;

fn key_bytes(k: u64) -> Vec<u8> {
    format!("key-{k}").into_bytes()
}

pub fn gen(a: &Args) -> i32 {
    let mut out = std::io::BufWriter::new(std::fs::File::create(&a.out).expect("out"));
    let mut st = Stats::default();
    for case in 0..a.cases {
        let mut r = Rng::for_case(a.seed, case);
        writeln!(out, "case {case}").unwrap();
        let nkeys = r.range(1, 3);
        let nops = r.range(3, if a.thorough { 60 } else { 30 });
        // generator-side bookkeeping to aim at interesting values (not an oracle)
        let mut next: u64 = 1;
        let mut live: Vec<u64> = vec![]; // stamps that may still fail
        let mut starts: Vec<u64> = vec![0];
        let gc_case = r.chance(1, 6);
        if gc_case {
            st.bump("case_with_gc_burst");
        }
        let mut rollbacks = 0;
        for i in 0..nops {
            let x = r.below(100);
            let pick_start = |r: &mut Rng, next: u64, starts: &Vec<u64>| -> u64 {
                match r.below(4) {
                    0 => next.saturating_sub(1),
                    1 => *r.pick(starts),
                    _ => r.below(next + 1),
                }
            };
            if x < 45 {
                let start = pick_start(&mut r, next, &starts);
                let oa = if r.chance(1, 2) { start } else { r.below(next + 1) };
                let n = r.range(1, 3);
                let keys: Vec<String> = (0..n).map(|_| r.below(nkeys).to_string()).collect();
                writeln!(out, "commit {start} {oa} {}", keys.join(" ")).unwrap();
                // may or may not succeed; if it does it takes n seqs
                st.bump("op_commit");
                // we cannot know here whether it succeeded; record candidates for `fail` by probing stamps
                live.push(next + n - 1);
                next += n; // optimistic; corrected by `sync` below
                starts.push(next - 1);
                // realign: the executor/driver report the real stamp; generator keeps optimistic numbering
                // by forcing success to be irrelevant: stamps of failed commits simply are unknown stamps
                // (a `fail` on an unknown stamp is a no-op in both machines). To keep numbering aligned we
                // emit a check probe that does not change state.
                let _ = i;
            } else if x < 60 && !live.is_empty() {
                let idx = r.below(live.len() as u64) as usize;
                let s = live.remove(idx);
                writeln!(out, "fail {s}").unwrap();
                rollbacks += 1;
                st.bump("op_fail");
            } else if x < 92 {
                let start = pick_start(&mut r, next, &starts);
                let n = r.range(1, 2);
                let keys: Vec<String> = (0..n).map(|_| r.below(nkeys).to_string()).collect();
                writeln!(out, "check {start} {}", keys.join(" ")).unwrap();
                st.bump("op_check");
            } else if x < 97 && gc_case {
                let n = r.range(1000, 1100);
                let oa = r.below(next + 1);
                writeln!(out, "burst {n} {oa}").unwrap();
                next += n;
                st.bump("op_burst");
            } else if x < 98 {
                let m = r.below(next + 1);
                writeln!(out, "reset {m}").unwrap();
                next = m + 1;
                live.clear();
                starts = vec![m];
                st.bump("op_reset");
            } else {
                let start = pick_start(&mut r, next, &starts);
                writeln!(out, "check {start} 0").unwrap();
                st.bump("op_check");
            }
        }
        if rollbacks >= 2 {
            st.bump("cases_with_2plus_rollbacks");
        }
    }
    out.flush().unwrap();
    if !a.stats.is_empty() {
        std::fs::write(&a.stats, st.to_json()).unwrap();
    }
    0
}

pub fn exec(a: &Args) -> i32 {
    let text = std::fs::read_to_string(&a.ops).expect("ops");
    let mut out = std::io::BufWriter::new(std::fs::File::create(&a.out).expect("out"));
    let mut o = Oracle::new();
    let mut next: u64 = 1;
    let mut batches: HashMap<u64, Vec<Vec<u8>>> = HashMap::new();
    let mut filler: u64 = 1_000_000;
    for line in text.lines() {
        let w: Vec<&str> = line.split_whitespace().collect();
        let res: String = match w.first().copied() {
            Some("case") => {
                o = Oracle::new();
                next = 1;
                batches.clear();
                filler = 1_000_000;
                "-".into()
            }
            Some("commit") => {
                let start: u64 = w[1].parse().unwrap();
                let oa: u64 = w[2].parse().unwrap();
                let keys: Vec<Vec<u8>> = w[3..].iter().map(|k| key_bytes(k.parse().unwrap())).collect();
                match o.check(&keys, start) {
                    "ok" => {
                        let count = keys.len() as u64;
                        o.publish(&keys, next, count, oa.min(start));
                        let stamp = next + count - 1;
                        batches.insert(stamp, keys);
                        next += count;
                        format!("ok:{stamp}")
                    }
                    e => e.to_string(),
                }
            }
            Some("fail") => {
                let stamp: u64 = w[1].parse().unwrap();
                if let Some(keys) = batches.remove(&stamp) {
                    o.rollback(&keys, stamp);
                }
                "-".into()
            }
            Some("check") => {
                let start: u64 = w[1].parse().unwrap();
                let keys: Vec<Vec<u8>> = w[2..].iter().map(|k| key_bytes(k.parse().unwrap())).collect();
                o.check(&keys, start).to_string()
            }
            Some("burst") => {
                let n: u64 = w[1].parse().unwrap();
                let oa: u64 = w[2].parse().unwrap();
                for _ in 0..n {
                    let keys = vec![key_bytes(filler)];
                    let start = next - 1;
                    if o.check(&keys, start) == "ok" {
                        o.publish(&keys, next, 1, oa.min(start));
                        batches.insert(next, keys);
                        next += 1;
                    }
                    filler += 1;
                }
                format!("next={next}")
            }
            Some("reset") => {
                let m: u64 = w[1].parse().unwrap();
                o.reset_for_restore(m);
                next = m + 1;
                batches.clear();
                "-".into()
            }
            _ => "bad-op".into(),
        };
        writeln!(out, "{res}").unwrap();
    }
    out.flush().unwrap();
    0
}
