//! Lock-order exploration (C17, store level): two real operations of a store — building iterator
//! state, flushing an immutable memtable, rotating the memtable, applying a compaction result — run
//! on two threads that stop at the yield point after each nested lock acquisition; the controller
//! walks every interleaving of those stops and reports each thread's acquisition order and whether
//! the pair ran to completion.
use crate::rng::Rng;
use crate::util::*;
use crate::Args;
use std::io::Write;
use std::sync::{Arc, Condvar, Mutex};
use std::time::{Duration, Instant};
use surrealkv::verif::store as vs;
use surrealkv::{Options, Tree, TreeBuilder};

const OPS: &[(&str, usize)] = &[("iter", 3), ("flush", 2), ("rotate", 2), ("compact", 2), ("commit", 1), ("rotflush", 6)];
const PAIRS: &[(&str, &str)] = &[("iter", "iter"), ("iter", "flush"), ("iter", "rotate"), ("iter", "compact"), ("flush", "rotate"), ("flush", "compact"), ("rotate", "compact"), ("flush", "iter"), ("compact", "iter"), ("rotate", "iter"),
    ("commit", "rotflush"), ("rotflush", "commit"), ("commit", "rotate"), ("commit", "commit"), ("commit", "iter"), ("commit", "flush")];

fn interleavings(a: usize, b: usize) -> Vec<String> {
    // all sequences with a zeros and b ones
    fn go(a: usize, b: usize, cur: &mut String, out: &mut Vec<String>) {
        if a == 0 && b == 0 {
            out.push(cur.clone());
            return;
        }
        if a > 0 {
            cur.push('0');
            go(a - 1, b, cur, out);
            cur.pop();
        }
        if b > 0 {
            cur.push('1');
            go(a, b - 1, cur, out);
            cur.pop();
        }
    }
    let mut out = vec![];
    go(a, b, &mut String::new(), &mut out);
    out
}

pub fn gen(a: &Args) -> i32 {
    let mut out = std::io::BufWriter::new(std::fs::File::create(&a.out).expect("out"));
    let mut st = Stats::default();
    let gates = |n: &str| OPS.iter().find(|o| o.0 == n).unwrap().1;
    let mut all: Vec<(String, String, String)> = vec![];
    for (x, y) in PAIRS {
        // advances per thread: one to start (first lock), one per further gate, one to finish
        for s in interleavings(gates(x) + 1, gates(y) + 1) {
            all.push((x.to_string(), y.to_string(), s));
        }
    }
    let mut r = Rng::new(a.seed);
    // quick: `cases` scenarios sampled; thorough (or cases >= all): every scenario
    let n = (a.cases as usize).min(all.len());
    if !a.thorough && n < all.len() {
        // every interleaving of a committer with a rotation + flush is always included (a batch must never be added to
        // a memtable that is being rotated away); the rest is sampled
        let (keep, mut rest): (Vec<_>, Vec<_>) = all.into_iter().partition(|(x, y, _)| (x == "commit" && y == "rotflush") || (x == "rotflush" && y == "commit"));
        for i in (1..rest.len()).rev() {
            rest.swap(i, r.below(i as u64 + 1) as usize);
        }
        rest.truncate(n);
        all = keep;
        all.extend(rest);
    }
    for (i, (x, y, s)) in all.iter().enumerate() {
        writeln!(out, "case {i}").unwrap();
        writeln!(out, "pair {x} {y} {s}").unwrap();
        st.bump(&format!("pair_{x}_{y}"));
    }
    if !a.stats.is_empty() {
        std::fs::write(&a.stats, st.to_json()).unwrap();
    }
    0
}

thread_local! {
    // the scenario this thread belongs to and its index in it (threads left behind by a deadlocked
    // scenario keep their own, abandoned, control block)
    static TID: std::cell::RefCell<Option<(Arc<Shared>, usize)>> = const { std::cell::RefCell::new(None) };
}

#[derive(Default)]
struct Ctl {
    events: [Vec<String>; 2],
    permits: [usize; 2],
    parks: [u64; 2], // number of times the thread parked at a gate
    done: [bool; 2],
}

struct Shared {
    m: Mutex<Ctl>,
    cv: Condvar,
}

fn park(sh: &Shared, i: usize, name: Option<&str>) {
    let mut g = sh.m.lock().unwrap();
    if let Some(n) = name {
        g.events[i].push(n.rsplit('.').next().unwrap_or(n).to_string());
    }
    g.parks[i] += 1;
    sh.cv.notify_all();
    while g.permits[i] == 0 {
        g = sh.cv.wait(g).unwrap();
    }
    g.permits[i] -= 1;
}

/// Advance thread i to its next stop.  `target[i]` is the park count it must reach for the permit it was
/// last given; while it is below that (the thread left its gate but is blocked on a lock) no new permit is given.
/// Returns true when the thread reached its next gate or finished within `wait`.
fn advance(sh: &Shared, i: usize, target: &mut [u64; 2], wait: Duration) -> bool {
    let mut g = sh.m.lock().unwrap();
    if g.done[i] {
        return false;
    }
    if g.parks[i] >= target[i] {
        // parked at a gate: let it go on
        target[i] = g.parks[i] + 1;
        g.permits[i] += 1;
        sh.cv.notify_all();
    }
    let t0 = Instant::now();
    loop {
        if g.done[i] || g.parks[i] >= target[i] {
            return true;
        }
        match wait.checked_sub(t0.elapsed()) {
            None => return false,
            Some(l) => g = sh.cv.wait_timeout(g, l).unwrap().0,
        }
    }
}

fn mk_opts(p: &std::path::Path) -> Options {
    let mut o = Options::new();
    o.path = p.to_path_buf();
    o.level_count = 2;
    o.level0_max_files = 1;
    o.l0_stall_threshold = 1000;
    o.memtable_stall_threshold = 1000;
    o.max_bytes_for_level = 1;
    o.max_memtable_size = 1 << 20;
    o
}

fn put(rt: &tokio::runtime::Runtime, t: &Tree, k: &str) {
    let mut tx = t.begin().unwrap();
    tx.set(k.as_bytes(), b"v").unwrap();
    rt.block_on(tx.commit()).unwrap();
}

pub fn exec(a: &Args) -> i32 {
    let rt = Arc::new(tokio::runtime::Builder::new_multi_thread().worker_threads(2).enable_all().build().unwrap());
    let _g = rt.enter();
    surrealkv::verif::set_yield_handler(Some(Arc::new(move |name: &'static str| {
        if !name.starts_with("lk.") {
            return;
        }
        let Some((sh, i)) = TID.with(|c| c.borrow().clone()) else { return };
        park(&sh, i, Some(name));
    })));
    let text = std::fs::read_to_string(&a.ops).expect("ops");
    let mut out = std::io::BufWriter::new(std::fs::File::create(&a.out).expect("out"));
    let wait = Duration::from_millis(120);
    for line in text.lines() {
        let w: Vec<&str> = line.split_whitespace().collect();
        let res: String = match w.first().copied() {
            Some("case") => "-".into(),
            Some("pair") if w.len() == 4 => {
                // a store in which every operation has nested locking to do: two tables in L0 (compaction due),
                // one immutable memtable (flush due), a non-empty active memtable (rotation possible)
                let dir = tempfile::tempdir().expect("tempdir");
                let t = TreeBuilder::with_options(mk_opts(dir.path())).build().expect("build");
                for k in ["k1", "k2"] {
                    put(&rt, &t, k);
                    vs::rotate(&t).unwrap();
                    vs::flush_immutables(&t).unwrap();
                }
                put(&rt, &t, "k3");
                vs::rotate(&t).unwrap();
                put(&rt, &t, "k4");
                let sh = Arc::new(Shared { m: Mutex::new(Ctl::default()), cv: Condvar::new() });
                let mut handles = vec![];
                for (i, op) in [w[1], w[2]].iter().enumerate() {
                    let op = op.to_string();
                    let t = t.clone();
                    let sh = sh.clone();
                    let rt = rt.clone();
                    handles.push(std::thread::spawn(move || {
                        let _g = rt.enter(); // flush spawns its WAL clean-up on the runtime
                        TID.with(|c| *c.borrow_mut() = Some((sh.clone(), i)));
                        park(&sh, i, None); // wait for the first advance
                        let r: Result<(), String> = match op.as_str() {
                            "iter" => (|| {
                                let tx = t.begin().map_err(|e| e.to_string())?;
                                let _it = tx.range(&b"a"[..], &b"z"[..]).map_err(|e| e.to_string())?;
                                Ok(())
                            })(),
                            "flush" => vs::flush_oldest(&t).map(|_| ()),
                            "rotate" => vs::rotate(&t),
                            "compact" => vs::compact_round(&t),
                            // a transaction of four keys: its apply adds them to the active memtable under the read lock
                            "commit" => (|| {
                                let mut tx = t.begin().map_err(|e| e.to_string())?;
                                for j in 0..4 {
                                    tx.set(format!("c{i}-{j}").as_bytes(), b"v").map_err(|e| e.to_string())?;
                                }
                                rt.block_on(tx.commit()).map_err(|e| e.to_string())
                            })(),
                            // what a rotating committer and the background flush task do one after the other
                            "rotflush" => vs::rotate(&t).and_then(|_| vs::flush_oldest(&t)).and_then(|_| vs::flush_oldest(&t)).map(|_| ()),
                            _ => Err("bad-op".into()),
                        };
                        let mut g = sh.m.lock().unwrap();
                        g.done[i] = true;
                        sh.cv.notify_all();
                        r
                    }));
                }
                // both threads parked at their start
                loop {
                    let g = sh.m.lock().unwrap();
                    if g.parks[0] >= 1 && g.parks[1] >= 1 {
                        break;
                    }
                    drop(g);
                    std::thread::sleep(Duration::from_micros(100));
                }
                let mut target = [1u64; 2]; // both threads are parked at their start (park count 1)
                for c in w[3].chars() {
                    advance(&sh, if c == '0' { 0 } else { 1 }, &mut target, wait);
                }
                // drain
                let mut ok = false;
                for _ in 0..40 {
                    {
                        let g = sh.m.lock().unwrap();
                        if g.done[0] && g.done[1] {
                            ok = true;
                            break;
                        }
                    }
                    let m0 = advance(&sh, 0, &mut target, wait);
                    let m1 = advance(&sh, 1, &mut target, wait);
                    if !m0 && !m1 {
                        // a second, longer look before calling it a deadlock
                        let m0 = advance(&sh, 0, &mut target, Duration::from_secs(2));
                        let m1 = advance(&sh, 1, &mut target, Duration::from_secs(2));
                        if !m0 && !m1 {
                            break;
                        }
                    }
                }
                let (tra, trb) = {
                    let g = sh.m.lock().unwrap();
                    let f = |v: &Vec<String>| if v.is_empty() { "-".to_string() } else { v.join(".") };
                    (f(&g.events[0]), f(&g.events[1]))
                };
                if ok {
                    let mut errs = vec![];
                    for h in handles {
                        if let Ok(Err(e)) = h.join() {
                            errs.push(e.replace(' ', "_"));
                        }
                    }
                    // the keys of a `commit` operation must all be readable now, and still after everything is flushed
                    let mut lost = vec![];
                    for round in 0..2 {
                        for (i, op) in [w[1], w[2]].iter().enumerate() {
                            if *op != "commit" {
                                continue;
                            }
                            let tx = t.begin().unwrap();
                            for j in 0..4 {
                                if !matches!(tx.get(format!("c{i}-{j}").as_bytes()), Ok(Some(_))) {
                                    lost.push(format!("c{i}-{j}@{round}"));
                                }
                            }
                        }
                        let _ = vs::rotate(&t).and_then(|_| vs::flush_immutables(&t));
                    }
                    let data = if lost.is_empty() { "ok".to_string() } else { format!("LOST:{}", lost.join("+")) };
                    let _ = rt.block_on(t.close());
                    if errs.is_empty() {
                        format!("trA={tra} trB={trb} end=ok data={data}")
                    } else {
                        format!("trA={tra} trB={trb} end=err:{} data={data}", errs.join("|"))
                    }
                } else {
                    // the two threads and the store are stuck for good: leave them behind
                    std::mem::forget(handles);
                    std::mem::forget(t);
                    std::mem::forget(dir);
                    format!("trA={tra} trB={trb} end=DEADLOCK data=ok")
                }
            }
            _ => "bad-op".into(),
        };
        writeln!(out, "{res}").unwrap();
        out.flush().unwrap();
    }
    surrealkv::verif::set_yield_handler(None);
    0
}
