//! Crash images (C02 / C03 / C07): a workload on a real `Tree`; at operation boundaries and at the
//! yield points *inside* commit / rotation / flush / manifest replacement / compaction the directory
//! is copied (process-crash image: every completed write is kept); each image is reopened with the
//! real `TreeBuilder`, scanned, written to, closed, reopened and scanned again.
use crate::rng::Rng;
use crate::util::*;
use crate::Args;
use std::io::Write;
use std::path::{Path, PathBuf};
use std::sync::{Arc, Mutex};
use surrealkv::verif::store as vs;
use surrealkv::{LSMIterator, Options, Tree, TreeBuilder};

const KEYS: &[&[u8]] = &[b"a", b"ab", b"b", b"b\x00", b"c", b"d", b"e", b"\xff"];

pub fn gen(a: &Args) -> i32 {
    let mut out = std::io::BufWriter::new(std::fs::File::create(&a.out).expect("out"));
    let mut st = Stats::default();
    for case in 0..a.cases {
        let mut r = Rng::for_case(a.seed, case);
        let levels = r.range(1, 3);
        let l0max = r.range(1, 3);
        let memkb = *r.pick(&[16u64, 64, 1024]); // tiny memtables force rotation inside a commit
        let vlog = if a.extra.get("vlog").map(|v| v == "1").unwrap_or(false) { 1 } else { r.chance(1, 4) as u8 };
        writeln!(out, "case {case} {levels} {l0max} {memkb} {vlog}").unwrap();
        let nk = r.range(2, KEYS.len() as u64) as usize;
        let nops = r.range(6, if a.thorough { 50 } else { 25 });
        // write-heavy cases fill the memtable so that a batch straddles a rotation
        let heavy = r.chance(1, 3);
        if heavy {
            st.bump("cases_write_heavy");
        }
        let mut vctr = 0;
        let mut images = 0;
        for _ in 0..nops {
            let x = if heavy && r.chance(2, 3) { r.below(45) } else { r.below(100) };
            let mk_writes = |r: &mut Rng, vctr: &mut u64| -> String {
                let n = r.range(1, 8);
                let mut ws = vec![];
                for _ in 0..n {
                    let k = hex(KEYS[r.below(nk as u64) as usize]);
                    if r.chance(3, 4) {
                        *vctr += 1;
                        let mut val = format!("v{vctr}").into_bytes();
                        if r.chance(1, 2) {
                            val.resize(300 + r.below(600) as usize, b'y');
                        }
                        ws.push(format!("{k}={}", hex(&val)));
                    } else {
                        ws.push(format!("{k}=DEL"));
                    }
                }
                ws.join(" ")
            };
            // transactions measured against the memtable: twice its size (refused before anything is logged) and
            // 80-93% of it (must go through, whatever is in the memtable already and whatever tower heights are drawn)
            if memkb >= 64 && x < 30 && r.chance(1, 10) {
                // a record longer than a 32 KiB block of the commit log; the process dies when exactly the blocks before
                // its last block boundary have reached the file (end of file between two fragments of the record)
                let k = hex(KEYS[r.below(nk as u64) as usize]);
                vctr += 1;
                writeln!(out, "txn {k}=Z{}.{}", r.range(34000, 50000), hex(format!("v{vctr}").as_bytes())).unwrap();
                st.bump("op_txn_multi_block_record");
                if r.chance(2, 3) {
                    writeln!(out, "crashtear block").unwrap();
                    st.bump("op_crashtear_at_block_boundary");
                }
            } else if memkb <= 64 && x < 30 && r.chance(1, 6) {
                let k = hex(KEYS[r.below(nk as u64) as usize]);
                vctr += 1;
                let tag = hex(format!("v{vctr}").as_bytes());
                if r.chance(1, 3) {
                    if r.chance(1, 2) {
                        writeln!(out, "txnbig {k}=Z{}.{tag}", memkb * 2048).unwrap();
                        st.bump("op_txn_oversize");
                    } else {
                        // one value exactly at the admission limit of an empty memtable (must go through) or 1-3 bytes
                        // beyond it (must be refused before it reaches the commit log)
                        let (_, max_node, empty) = surrealkv::verif::memtable::node_sizes();
                        let key = KEYS[r.below(nk as u64) as usize];
                        let l_max = memkb as usize * 1024 - empty - max_node - 7 - key.len() - 2; // 2: inline-value header
                        let d = r.below(4) as usize;
                        if d == 0 {
                            writeln!(out, "txn {}=Z{}.{tag}", hex(key), l_max - r.below(2) as usize).unwrap();
                            st.bump("op_txn_exactly_at_the_limit");
                        } else {
                            writeln!(out, "txnbig {}=Z{}.{tag}", hex(key), l_max + d).unwrap();
                            st.bump("op_txn_just_beyond_the_limit");
                        }
                    }
                } else if r.chance(1, 2) {
                    // as many 100-byte entries as the admission check lets through, or a few fewer: whether they fit
                    // the arena of an ordinary memtable depends on the tower heights drawn for their nodes
                    let (min_node, max_node, empty) = surrealkv::verif::memtable::node_sizes();
                    let data = 4 + 100 + 2 + 7; // key, value, inline-value header, alignment slack
                    let cap = memkb as usize * 1024;
                    let m_max = (cap - empty - (max_node + data)) / (min_node + data) + 1;
                    // up to 3 more than that must be refused
                    let m = m_max + 3 - r.below(8) as usize;
                    let mut ws = vec![];
                    for j in 0..m {
                        vctr += 1;
                        let mut val = format!("v{vctr}").into_bytes();
                        val.resize(100, b'y');
                        ws.push(format!("{}={}", hex(format!("k{j:03}").as_bytes()), hex(&val)));
                    }
                    if m > m_max {
                        writeln!(out, "txnbig {}", ws.join(" ")).unwrap();
                        st.bump("op_txn_many_entries_beyond_the_limit");
                    } else {
                        writeln!(out, "txn {}", ws.join(" ")).unwrap();
                        st.bump("op_txn_many_entries_at_the_limit");
                    }
                } else {
                    let parts = r.range(1, 5);
                    let total = memkb * 1024 * r.range(80, 93) / 100;
                    let mut ws = vec![];
                    for j in 0..parts {
                        let kk = hex(KEYS[((r.below(nk as u64) + j) % nk as u64) as usize]);
                        vctr += 1;
                        ws.push(format!("{kk}=Z{}.{}", total / parts, hex(format!("v{vctr}").as_bytes())));
                    }
                    let at = if r.chance(1, 3) { format!("@{}", r.range(1, 9)) } else { String::new() };
                    if !at.is_empty() {
                        images += 1;
                    }
                    writeln!(out, "txn{at} {}", ws.join(" ")).unwrap();
                    st.bump("op_txn_near_capacity");
                    // the record spans a 32 KiB block boundary of the commit log: the process dies when exactly the blocks
                    // before the last boundary have reached the file (end of file between two fragments of the record)
                    // (a key written twice in the transaction is logged once: count what the record really holds)
                    let mut distinct: Vec<&str> = ws.iter().map(|x| x.split('=').next().unwrap()).collect();
                    distinct.sort();
                    distinct.dedup();
                    if at.is_empty() && total / parts * distinct.len() as u64 >= 33000 && r.chance(2, 3) {
                        writeln!(out, "crashtear block").unwrap();
                        st.bump("op_crashtear_at_block_boundary");
                    }
                }
            } else if x < 30 && r.chance(1, 8) {
                // someone else's rotation (and the flush of the rotated memtable) falls between this commit's WAL append and
                // its apply; then the process dies
                writeln!(out, "txnrot {}", mk_writes(&mut r, &mut vctr)).unwrap();
                st.bump("op_txn_rotated_under");
                if r.chance(2, 3) {
                    writeln!(out, "crash").unwrap();
                    images += 1;
                }
            } else if x < 30 {
                writeln!(out, "txn {}", mk_writes(&mut r, &mut vctr)).unwrap();
                st.bump("op_txn");
                // the process dies while this commit's record is being written: torn tail, reopen with repair, carry on
                if r.chance(1, 6) {
                    writeln!(out, "crashtear {}", r.range(8, 20)).unwrap();
                    st.bump("op_crashtear");
                }
            } else if x < 45 {
                writeln!(out, "txn@{} {}", r.range(1, 9), mk_writes(&mut r, &mut vctr)).unwrap();
                images += 1;
                st.bump("img_in_commit");
            } else if x < 52 {
                writeln!(out, "rotate@{}", r.range(1, 2)).unwrap();
                images += 1;
                st.bump("img_in_rotate");
            } else if x < 67 {
                writeln!(out, "flush@{}", r.range(1, 12)).unwrap();
                images += 1;
                st.bump("img_in_flush");
            } else if x < 82 {
                writeln!(out, "compact@{}", r.range(1, 6)).unwrap();
                images += 1;
                st.bump("img_in_compact");
            } else if x < 90 {
                writeln!(out, "crash").unwrap();
                images += 1;
                st.bump("img_at_boundary");
            } else if x < 92 {
                writeln!(out, "flushimm").unwrap();
                st.bump("op_flushimm");
            } else if x < 95 {
                writeln!(out, "reopen").unwrap();
                st.bump("op_reopen");
            } else {
                writeln!(out, "scanall").unwrap();
            }
        }
        writeln!(out, "crash").unwrap();
        writeln!(out, "scanall").unwrap();
        st.add("images", images + 1);
    }
    out.flush().unwrap();
    if !a.stats.is_empty() {
        std::fs::write(&a.stats, st.to_json()).unwrap();
    }
    0
}

fn mk_opts(path: &Path, o: (u8, usize, usize, bool)) -> Options {
    let mut opts = Options::new();
    opts.path = path.to_path_buf();
    opts.level_count = o.0;
    opts.level0_max_files = o.1;
    opts.l0_stall_threshold = 1000;
    opts.memtable_stall_threshold = 1000;
    opts.max_bytes_for_level = 1;
    opts.max_memtable_size = o.2 * 1024;
    if o.3 {
        opts.enable_vlog = true;
        opts.vlog_value_threshold = 0;
        opts.vlog_max_file_size = 2048;
    }
    opts
}

/// names, sizes and modification times of everything under `p`
fn listing(p: &Path, out: &mut Vec<(PathBuf, u64, Option<std::time::SystemTime>)>) {
    if let Ok(rd) = std::fs::read_dir(p) {
        for e in rd.flatten() {
            let path = e.path();
            if path.is_dir() {
                listing(&path, out);
            } else if let Ok(m) = e.metadata() {
                out.push((path, m.len(), m.modified().ok()));
            }
        }
    }
    out.sort();
}

/// A crash image must be a state of the directory that existed at one instant.  Background tasks (asynchronous
/// commit-log clean-up, start-up compaction) may run while we copy, so the copy is repeated until the
/// directory listing (names, sizes, mtimes) is the same before and after it.
pub fn copy_dir(src: &Path, dst: &Path) {
    for _ in 0..50 {
        let mut before = vec![];
        listing(src, &mut before);
        let _ = std::fs::remove_dir_all(dst);
        copy_dir_once(src, dst);
        let mut after = vec![];
        listing(src, &mut after);
        if before == after {
            return;
        }
        std::thread::sleep(std::time::Duration::from_millis(2));
    }
}

fn copy_dir_once(src: &Path, dst: &Path) {
    std::fs::create_dir_all(dst).unwrap();
    for e in std::fs::read_dir(src).unwrap() {
        let e = e.unwrap();
        let p = e.path();
        let d = dst.join(e.file_name());
        if p.is_dir() {
            copy_dir_once(&p, &d);
        } else {
            // a file may vanish between listing and copying (async WAL clean-up): that is a legal image
            let _ = std::fs::copy(&p, &d);
        }
    }
}

fn scan(tree: &Tree) -> Result<String, String> {
    let t = tree.begin().map_err(|e| format!("begin:{}", err_name(&e)))?;
    let mut it = t.range(&b"\x00"[..], &b"\xff\xff\xff"[..]).map_err(|e| format!("range:{}", err_name(&e)))?;
    let mut items: Vec<String> = vec![];
    let mut ok = it.seek_first().map_err(|e| format!("seek:{}", err_name(&e)))?;
    while ok && it.valid() {
        let k = it.key().user_key().to_vec();
        let v = it.value().map_err(|e| format!("value:{}", err_name(&e)))?;
        items.push(format!("{}={}", hex(&k), render_val(&v)));
        ok = it.next().map_err(|e| format!("next:{}", err_name(&e)))?;
        if items.len() > 1000 {
            return Err("runaway".into());
        }
    }
    Ok(if items.is_empty() { "-".into() } else { items.join(",") })
}

/// reopen the image, scan, commit a probe, close, reopen, scan again
fn check_image(rt: &tokio::runtime::Runtime, img: &Path, o: (u8, usize, usize, bool)) -> String {
    let t1 = match TreeBuilder::with_options(mk_opts(img, o)).build() {
        Ok(t) => t,
        Err(e) => return format!("img=? re=err:open1:{}", err_name(&e)),
    };
    let s1 = match scan(&t1) {
        Ok(s) => s,
        Err(e) => return format!("img=? re=err:scan1:{e}"),
    };
    let verdict = (|| -> Result<(), String> {
        let mut p = t1.begin().map_err(|e| format!("begin:{}", err_name(&e)))?;
        p.set(&b"\xff\xff-probe"[..], &b"p"[..]).map_err(|e| format!("set:{}", err_name(&e)))?;
        rt.block_on(p.commit()).map_err(|e| format!("probe-commit:{}", err_name(&e)))?;
        let with_probe = scan(&t1)?;
        rt.block_on(t1.close()).map_err(|e| format!("close:{}", err_name(&e)))?;
        let t2 = TreeBuilder::with_options(mk_opts(img, o)).build().map_err(|e| format!("open2:{}", err_name(&e)))?;
        let s2 = scan(&t2)?;
        let _ = rt.block_on(t2.close());
        let expect = if s1 == "-" { format!("{}=70", hex(b"\xff\xff-probe")) } else { format!("{s1},{}=70", hex(b"\xff\xff-probe")) };
        if with_probe != expect {
            return Err("probe-not-visible-or-shadowed".into());
        }
        if s2 != expect {
            return Err("second-open-differs".into());
        }
        Ok(())
    })();
    match verdict {
        Ok(()) => format!("img={s1} re=ok"),
        Err(e) => format!("img={s1} re=err:{}", e.replace(' ', "_")),
    }
}

struct Arm {
    target: u64,
    count: u64,
    src: PathBuf,
    dst: PathBuf,
    taken: bool,
}
static ARM: Mutex<Option<Arm>> = Mutex::new(None);
static ROTATIONS: std::sync::atomic::AtomicU64 = std::sync::atomic::AtomicU64::new(0);
/// `txnrot`: address of the tree whose memtable is rotated and flushed when the committer reaches the point between its
/// WAL append and its memtable apply (what another committer's rotation plus the background flush do to it)
static ROT_HOOK: Mutex<Option<usize>> = Mutex::new(None);

pub fn exec(a: &Args) -> i32 {
    let rt = tokio::runtime::Builder::new_multi_thread().worker_threads(2).enable_all().build().unwrap();
    let _g = rt.enter();
    surrealkv::verif::set_yield_handler(Some(Arc::new(|name: &'static str| {
        if name == "rotate.wal_rotated" {
            ROTATIONS.fetch_add(1, std::sync::atomic::Ordering::SeqCst);
        }
        if name == "commit.after_critical" {
            let hook = ROT_HOOK.lock().unwrap().take();
            if let Some(addr) = hook {
                // SAFETY: the tree is owned by `exec` and outlives the commit call that reaches this point
                let t: &Tree = unsafe { &*(addr as *const Tree) };
                let _ = vs::rotate(t).and_then(|_| vs::flush_immutables(t));
            }
        }
        let mut g = ARM.lock().unwrap();
        if let Some(arm) = g.as_mut() {
            arm.count += 1;
            if arm.count == arm.target && !arm.taken {
                copy_dir(&arm.src, &arm.dst);
                arm.taken = true;
            }
        }
    })));
    let text = std::fs::read_to_string(&a.ops).expect("ops");
    let mut out = std::io::BufWriter::new(std::fs::File::create(&a.out).expect("out"));
    let mut dir = tempfile::tempdir().expect("tempdir");
    let mut tree: Option<Tree> = None;
    let mut o = (2u8, 2usize, 64usize, false);
    // H_noStraddle: set once a memtable rotation happened between a batch's WAL append and the end of
    // its apply in this case (known finding `batch-straddles-rotation`); later images are not judged
    let mut straddled = false;
    // set when a `crashtear` found no record to tear (the commit log had been flushed already): the model assumed
    // the last transaction lost, so the rest of the case is not comparable
    let mut untorn = false;
    let mut last_straddled = false;
    // rotation count when the last transaction started: a rotation since then (its own, or the one its size triggered
    // right after it) means its record is no longer the tail of the newest segment — and a background flush may already
    // have made it durable in a table
    let mut last_txn_rot = 0u64;
    for line in text.lines() {
        let w: Vec<&str> = line.split_whitespace().collect();
        let res = std::panic::catch_unwind(std::panic::AssertUnwindSafe(|| -> String {
            let opname = w.first().copied().unwrap_or("");
            let (base, at) = match opname.split_once('@') {
                Some((b, i)) => (b, Some(i.parse::<u64>().unwrap())),
                None => (opname, None),
            };
            if base == "case" {
                if let Some(t) = tree.take() {
                    let _ = rt.block_on(t.close());
                }
                dir = tempfile::tempdir().expect("tempdir");
                o = (w[2].parse().unwrap(), w[3].parse().unwrap(), w[4].parse().unwrap(), w[5] == "1");
                tree = Some(TreeBuilder::with_options(mk_opts(dir.path(), o)).build().expect("build"));
                straddled = false;
                untorn = false;
                return "-".into();
            }
            let t = match tree.as_ref() {
                Some(t) => t,
                None => return "err:no-tree".into(),
            };
            let imgdir = tempfile::tempdir().expect("tempdir");
            if let Some(i) = at {
                *ARM.lock().unwrap() = Some(Arm { target: i, count: 0, src: dir.path().to_path_buf(), dst: imgdir.path().join("img"), taken: false });
            }
            let rot_before = ROTATIONS.load(std::sync::atomic::Ordering::SeqCst);
            if base.starts_with("txn") {
                last_txn_rot = rot_before;
            }
            let r: Result<(), String> = match base {
                "txn" | "txnbig" | "txnrot" => (|| {
                    if base == "txnrot" {
                        *ROT_HOOK.lock().unwrap() = Some(t as *const Tree as usize);
                    }
                    let mut tx = t.begin().map_err(|e| err_name(&e))?;
                    for wr in &w[1..] {
                        let (k, v) = wr.split_once('=').unwrap();
                        match v {
                            "DEL" => tx.delete(unhex(k)),
                            _ => tx.set(unhex(k), tok_val(v)),
                        }
                        .map_err(|e| err_name(&e))?;
                    }
                    rt.block_on(tx.commit()).map_err(|e| if matches!(e, surrealkv::Error::BatchTooLarge) { "toolarge".to_string() } else { err_name(&e) })
                })(),
                "rotate" => vs::rotate(t),
                "flush" => vs::rotate(t).and_then(|_| vs::flush_immutables(t)),
                "flushimm" => vs::flush_immutables(t),
                "compact" => vs::compact_round(t),
                "crash" => {
                    copy_dir(dir.path(), &imgdir.path().join("img"));
                    Ok(())
                }
                "scanall" => return format!("{}{}", scan(t).unwrap_or_else(|e| format!("err:{e}")), if untorn { " H=nothing-to-tear" } else { "" }),
                "crashtear" => {
                    let at_block = w.get(1).copied() == Some("block");
                    let cut: u64 = w.get(1).and_then(|s| s.parse().ok()).unwrap_or(1);
                    let newdir = tempfile::tempdir().expect("tempdir");
                    copy_dir(dir.path(), newdir.path());
                    let _ = std::fs::remove_file(newdir.path().join("LOCK"));
                    // tear the last record: it is the tail of the highest-numbered non-empty segment
                    let mut segs: Vec<PathBuf> = std::fs::read_dir(newdir.path().join("wal"))
                        .map(|rd| rd.flatten().map(|e| e.path()).filter(|p| p.extension().map(|x| x == "wal").unwrap_or(false)).collect())
                        .unwrap_or_default();
                    segs.sort();
                    let mut torn = false;
                    if std::env::var("SKV_DEBUG_TEAR").is_ok() {
                        for p in &segs {
                            eprintln!("DBG seg {:?} len={}", p.file_name(), std::fs::metadata(p).map(|m| m.len()).unwrap_or(0));
                        }
                        if let Ok(rd) = std::fs::read_dir(newdir.path().join("sstables")) {
                            for e in rd.flatten() {
                                eprintln!("DBG sst {:?} len={}", e.file_name(), e.metadata().map(|m| m.len()).unwrap_or(0));
                            }
                        }
                    }
                    for p in segs.iter().rev() {
                        let len = std::fs::metadata(p).map(|m| m.len()).unwrap_or(0);
                        if at_block {
                            // the last block boundary below the end of the file lies inside the last record (the generator
                            // asks for this only after a record longer than a block)
                            if len > 32768 {
                                let f = std::fs::OpenOptions::new().write(true).open(p).expect("open wal");
                                f.set_len((len - 1) / 32768 * 32768).expect("truncate");
                                torn = true;
                            }
                            if len > 0 {
                                break; // only the newest non-empty segment holds the last record
                            }
                        } else if len > cut {
                            let f = std::fs::OpenOptions::new().write(true).open(p).expect("open wal");
                            f.set_len(len - cut).expect("truncate");
                            torn = true;
                            break;
                        }
                    }
                    let old = tree.take().unwrap();
                    let _ = rt.block_on(old.close());
                    straddled = false;
                    dir = newdir;
                    return match TreeBuilder::with_options(mk_opts(dir.path(), o)).build() {
                        Ok(nt) => {
                            tree = Some(nt);
                            // a batch that was logged again after a rotation (fix 3449869) has two records: tearing the
                            // tail of the newest segment removes the copy only, the transaction is still there
                            let rotated_since = ROTATIONS.load(std::sync::atomic::Ordering::SeqCst) != last_txn_rot;
                            if !torn || last_straddled || rotated_since {
                                untorn = true;
                            }
                            if torn && !last_straddled && !rotated_since { "ok".into() } else { "ok H=nothing-to-tear".into() }
                        }
                        Err(e) => format!("err:open:{}", err_name(&e)),
                    };
                }
                "reopen" => {
                    // a clean close flushes everything: the straddled batch is safe from here on
                    straddled = false;
                    let old = tree.take().unwrap();
                    if let Err(e) = rt.block_on(old.close()) {
                        return format!("err:close:{}", err_name(&e));
                    }
                    return match TreeBuilder::with_options(mk_opts(dir.path(), o)).build() {
                        Ok(nt) => {
                            tree = Some(nt);
                            "ok".into()
                        }
                        Err(e) => format!("err:open:{}", err_name(&e)),
                    };
                }
                _ => return "bad-op".into(),
            };
            let taken = match ARM.lock().unwrap().take() {
                Some(arm) => arm.taken,
                None => base == "crash",
            };
            if let Err(e) = r {
                return format!("err:{}", e.replace(' ', "_"));
            }
            // S=straddle marks the transaction during which the memtable rotated: its first record is in the old
            // segment (the batch is logged again in the new one: fix 3449869); images after it are judged like any other
            let mut s_mark = "";
            if base == "txn" {
                last_straddled = ROTATIONS.load(std::sync::atomic::Ordering::SeqCst) != rot_before;
                if last_straddled {
                    s_mark = " S=straddle";
                }
            }
            let h = if untorn { " H=nothing-to-tear" } else if straddled { " H=straddle" } else { "" };
            if at.is_none() && base != "crash" {
                return format!("ok{s_mark}");
            }
            if !taken {
                return format!("img=none{s_mark}");
            }
            format!("{}{h}{s_mark}", check_image(&rt, &imgdir.path().join("img"), o))
        }));
        match res {
            Ok(s) => writeln!(out, "{s}").unwrap(),
            Err(_) => {
                *ARM.lock().unwrap() = None;
                writeln!(out, "PANIC").unwrap()
            }
        }
    }
    out.flush().unwrap();
    if let Some(t) = tree.take() {
        let _ = rt.block_on(t.close());
    }
    0
}
