import Skv.Spec.CompactSpec

/-- candidate repaired rule -/
def keepVer2 (c : CCfg) (snaps : List Nat) (oldestSeq : Nat) (ldb barrierSeen isLatest : Bool) (nv : Option Vis) (v : Ver) : Bool × Vis :=
  let cur := earliest snaps v.seq
  -- with versioning, a newer version never makes an older one redundant by itself
  let sup := match nv with
    | none => false
    | some x => (!c.versioning) && !isLatest && sameBoundary x cur
  let required := !sup && (match cur with | .bounded _ => true | _ => false)
  let isHard := v.kind.isHard
  let isRepl := v.kind == .replace
  let expired := c.retention > 0 && decide (c.now - v.ts > c.retention)
  let stale :=
    if sup then true else if ldb then true else if required then false
    else if isLatest && !isHard && !isRepl then false
    else if isLatest && isHard then false
    else if isLatest && isRepl then false
    else if barrierSeen then true                 -- erased for good by a newer hard delete / replace
    else if isHard then c.bottom && !(snaps.any (fun s => s < v.seq && s ≥ oldestSeq))   -- the newest barrier keeps masking lower levels / versions a snapshot still needs
    else if !c.versioning then true
    else if isRepl then c.bottom && expired && !(snaps.any (fun s => s < v.seq && s ≥ oldestSeq))   -- idem
    else expired
  let out := if sup then false else if ldb then false else if stale then false
    else if c.versioning || required then true else isLatest
  (out, cur)

def compactGo2 (c : CCfg) (snaps : List Nat) (oldestSeq : Nat) (ldb : Bool) : Bool → Bool → Option Vis → List Ver → List Ver
  | _, _, _, [] => []
  | isLatest, bs, nv, v :: vs =>
    let r := keepVer2 c snaps oldestSeq ldb bs isLatest nv v
    let rest := compactGo2 c snaps oldestSeq ldb false (bs || v.kind.isBarrier) (some r.2) vs
    if r.1 then v :: rest else rest

def compactKey2 (c : CCfg) (snaps : List Nat) (vs : List Ver) : List Ver :=
  compactGo2 c snaps ((vs.getLast?.map (·.seq)).getD 0) (latestDeleteAtBottom c snaps vs) true false none vs

def kinds : List VKind := [.set, .delete, .softDelete, .replace]

def allVers : Nat → List (List Ver)
  | 0 => [[]]
  | n + 1 => (allVers n).flatMap (fun rest => kinds.map (fun k => ⟨2 * (n + 1), k, 2 * (n + 1)⟩ :: rest))

def subsets : List Nat → List (List Nat)
  | [] => [[]]
  | x :: xs => (subsets xs).flatMap (fun s => [s, x :: s])

def cfgs : List CCfg := [⟨false, true, 0, 20⟩, ⟨true, true, 0, 20⟩, ⟨false, true, 3, 9⟩, ⟨true, true, 3, 9⟩, ⟨false, false, 0, 20⟩, ⟨true, false, 0, 20⟩]

def countBad (f : CCfg → List Nat → List Ver → List Ver) (n : Nat) : Nat × Nat :=
  let inputs := (allVers n).flatMap (fun vs => (subsets (List.range (2 * n + 1) |>.map (· + 1))).flatMap (fun sn => cfgs.map (fun c => (c, sn, vs))))
  (inputs.length, (inputs.filter (fun (c, sn, vs) => !specOK c sn vs (f c sn vs))).length)


def firstBad (f : CCfg → List Nat → List Ver → List Ver) (n : Nat) : List String :=
  let inputs := (allVers n).flatMap (fun vs => (subsets (List.range (2 * n + 1) |>.map (· + 1))).flatMap (fun sn => cfgs.map (fun c => (c, sn, vs))))
  ((inputs.filter (fun (x : CCfg × List Nat × List Ver) => !specOK x.1 x.2.1 x.2.2 (f x.1 x.2.1 x.2.2))).take 12).map
    (fun (x : CCfg × List Nat × List Ver) => s!"{repr x.1} snaps={x.2.1} vs={x.2.2.map (fun (v : Ver) => (v.seq, v.kind.toByte))} out={(f x.1 x.2.1 x.2.2).map (fun (v : Ver) => v.seq)}")

def countDiff (n : Nat) : Nat × Nat :=
  let inputs := (allVers n).flatMap (fun vs => (subsets (List.range (2 * n + 1) |>.map (· + 1))).flatMap (fun sn => cfgs.map (fun c => (c, sn, vs))))
  ((inputs.filter (fun (x : CCfg × List Nat × List Ver) => !x.1.versioning && compactKey x.1 x.2.1 x.2.2 != compactKey2 x.1 x.2.1 x.2.2)).length,
   (inputs.filter (fun (x : CCfg × List Nat × List Ver) => x.1.versioning && compactKey x.1 x.2.1 x.2.2 != compactKey2 x.1 x.2.1 x.2.2)).length)
#eval (countDiff 2, countDiff 3)
